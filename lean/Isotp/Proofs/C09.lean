import Isotp.Process
import Isotp.Spec.Addressing
/-
  Helper lemmas for property C09 (addressing).
-/
namespace Isotp.C09
open Isotp Isotp.State Isotp.Spec

/-! ### A. the model's `isForMe` is the documented reception condition -/

theorem uses29bitIds_eq (m : Mode) : uses29bitIds m = m.is29 := by
  cases m <;> rfl

theorem mask_eq_basePart (x : Nat) : mask2816 x = idBasePart x := by
  unfold mask2816 idBasePart; omega

theorem targetField_eq (x : Nat) : x / 256 % 256 = idTargetField x := by
  unfold idTargetField; omega

theorem some_beq_eq_isParam (x : Nat) (o : Option Nat) : (some x == o) = isParam x o := by
  cases o <;> simp [isParam, Bool.beq_eq_decide_eq]

theorem byteAt_zero_cons (b : UInt8) (l : Bytes) : byteAt (b :: l) 0 = b.toNat := by
  simp [byteAt]

theorem fixed_eq (h : Half) (id : Nat) :
    ((mask2816 id == h.physId || mask2816 id == h.funcId) &&
      isParam (id / 256 % 256) h.sa && isParam (id % 256) h.ta) = fixedIdOk h id := by
  simp only [fixedIdOk, mask_eq_basePart, targetField_eq, idSourceField, Bool.beq_eq_decide_eq]

theorem isForMe_eq_receptionCondition (h : Half) (m : CanMsg) :
    h.isForMe m = receptionCondition h m := by
  unfold Half.isForMe receptionCondition
  rw [uses29bitIds_eq]
  cases hm : h.mode <;> cases he : m.ext <;> cases hd : m.data <;>
    simp [Mode.is29, scheme, firstByteIs, some_beq_eq_isParam, fixed_eq, byteAt_zero_cons]

/-! ### B. `mkAddress` produces well-formed addresses -/

theorem atMost_of_byteOk (v : PyVal) (h : byteOk v = true) : atMost (optNat v) 255 = true := by
  simp only [byteOk, Bool.and_eq_true, Bool.or_eq_true, decide_eq_true_eq] at h
  cases v <;> simp_all [optNat, atMost, PyVal.isNone, PyVal.isInt, PyVal.intVal] <;> omega

theorem atMost_of_idOk (v : PyVal) (h : idOk false v = true) : atMost (optNat v) 2047 = true := by
  simp only [idOk, Bool.and_eq_true, Bool.or_eq_true, decide_eq_true_eq] at h
  cases v <;> simp_all [optNat, atMost, PyVal.isNone, PyVal.isInt, PyVal.intVal] <;> omega

theorem baseOk_mask (x : Nat) : baseOk (mask2816 x) = true := by
  simp only [baseOk, Bool.and_eq_true, decide_eq_true_eq]; unfold mask2816; omega

theorem optNat_ne_of_not_pyEq (b : Bool) (x y : PyVal) (hx : idOk b x = true) (hy : idOk b y = true)
    (hne : x.pyEq y = false) : optNat x ≠ optNat y := by
  simp only [idOk, Bool.and_eq_true, Bool.or_eq_true, decide_eq_true_eq] at hx hy
  cases x <;> cases y <;>
    simp_all [optNat, PyVal.pyEq, PyVal.isNone, PyVal.isInt, PyVal.intVal] <;> omega

theorem optNat_isSome (v : PyVal) : (optNat v).isSome = !v.isNone := by
  cases v <;> simp [optNat, PyVal.isNone]

theorem baseOk_optBase (o : Option Nat) (d : Nat) (hd : baseOk d = true) :
    baseOk ((o.map mask2816).getD d) = true := by
  cases o <;> simp [baseOk_mask, hd]

theorem wf_of_mkAddress (a : AddrArgs) (h : Half) (hk : mkAddress a = .ok h) : h.wf = true := by
  unfold mkAddress at hk
  cases hm : a.mode with
  | none => simp [hm] at hk
  | some m =>
    simp only [hm] at hk
    split at hk
    · rename_i hv
      simp only [validateAddr, hm, Bool.and_eq_true] at hv
      obtain ⟨⟨⟨⟨⟨⟨hpart, hpres⟩, hta⟩, hsa⟩, hae⟩, htx⟩, hrx⟩ := hv
      injection hk with hk
      subst hk
      have h1 := atMost_of_byteOk _ hta
      have h2 := atMost_of_byteOk _ hsa
      have h3 := atMost_of_byteOk _ hae
      have h4 := optNat_ne_of_not_pyEq _ _ _ hrx htx
      have h5 : ∀ d, baseOk d = true → baseOk ((a.physId.map mask2816).getD d) = true :=
        baseOk_optBase _
      have h6 : ∀ d, baseOk d = true → baseOk ((a.funcId.map mask2816).getD d) = true :=
        baseOk_optBase _
      have c0 : baseOk 0 = true := by decide
      have c1 : baseOk 0x18DA0000 = true := by decide
      have c2 : baseOk 0x18DB0000 = true := by decide
      have c3 : baseOk 0x18CE0000 = true := by decide
      have c4 : baseOk 0x18CD0000 = true := by decide
      cases m <;>
        simp_all [Half.wf, presence, idsDiffer, scheme, uses29bitIds, Mode.is29, presenceOk,
          optNat_isSome] <;>
        grind [atMost_of_idOk]
    · simp at hk

/-! ### C. emitted identifier / prefix of the model are the documented ones -/

theorem param_eq_getD (o : Option Nat) : param o = o.getD 0 := by cases o <;> rfl

theorem txId_eq_emittedId (h : Half) (t : Tat) : h.txId t = emittedId h t := by
  unfold Half.txId emittedId
  cases h.mode <;> cases t <;> simp [scheme, baseFor, param_eq_getD] <;> omega

theorem txPrefix_eq_emittedPrefix (h : Half) : h.txPrefix = emittedPrefix h := by
  unfold Half.txPrefix emittedPrefix
  cases h.mode <;> simp [scheme, param_eq_getD, u8]

theorem add_eq_or (base ta sa : Nat) (hb : base % 65536 = 0) (hta : ta ≤ 255) (hsa : sa ≤ 255) :
    base + (256 * ta + sa) = base ||| (ta <<< 8) ||| sa := by
  obtain ⟨k, rfl⟩ : ∃ k, base = k * 65536 := ⟨base / 65536, by omega⟩
  have e : k * 65536 + ta * 256 = (k * 256 + ta) * 256 := by omega
  have e' : k * 65536 + (256 * ta + sa) = (k * 256 + ta) * 256 + sa := by omega
  have a1 := Nat.shiftLeft_add_eq_or_of_lt (i := 16) (b := ta <<< 8)
    (by simp only [Nat.shiftLeft_eq, Nat.reducePow]; omega) k
  have a2 := Nat.shiftLeft_add_eq_or_of_lt (i := 8) (b := sa) (by omega) (k * 256 + ta)
  simp only [Nat.shiftLeft_eq, Nat.reducePow] at a1 a2 ⊢
  rewrite [← a1, e, ← a2]
  exact e'

theorem param_le_of_atMost (o : Option Nat) (b : Nat) (h : atMost o b = true) : param o ≤ b := by
  cases o <;> simp_all [atMost, param]

theorem emittedId_eq_bitwise (h : Half) (t : Tat) (hw : h.wf = true) :
    emittedId h t = emittedIdBitwise h t := by
  simp only [Half.wf, Bool.and_eq_true, baseOk, decide_eq_true_eq] at hw
  obtain ⟨⟨⟨⟨⟨⟨⟨⟨hta, hsa⟩, _⟩, _⟩, hp, _⟩, hf, _⟩, _⟩, _⟩, _⟩ := hw
  have h1 := param_le_of_atMost _ _ hta
  have h2 := param_le_of_atMost _ _ hsa
  unfold emittedId emittedIdBitwise
  cases h.mode <;> cases t <;> simp only [scheme, baseFor] <;> exact add_eq_or _ _ _ (by assumption) h1 h2

/-! ### D. frames emitted as documented meet the reception condition of the mirrored address -/

theorem toNat_ofNat_of_le (v : Nat) (h : v ≤ 255) : (UInt8.ofNat v).toNat = v := by
  rw [UInt8.toNat_ofNat']; omega

theorem isParam_param (o : Option Nat) (h : o.isSome = true) : isParam (param o) o = true := by
  cases o <;> simp_all [isParam, param]

theorem firstByteIs_prefix (o : Option Nat) (rest : Bytes) (h : o.isSome = true) (hb : atMost o 255 = true) :
    firstByteIs (UInt8.ofNat (param o) :: rest) o = true := by
  cases o with
  | none => simp at h
  | some v =>
    simp only [atMost, decide_eq_true_eq] at hb
    simp [firstByteIs, isParam, param, toNat_ofNat_of_le v hb]

theorem fixedIdOk_mirror (h : Half) (t : Tat) (hta : h.ta.isSome = true) (hsa : h.sa.isSome = true)
    (bta : atMost h.ta 255 = true) (bsa : atMost h.sa 255 = true)
    (hp : baseOk h.physId = true) (hf : baseOk h.funcId = true) :
    fixedIdOk (mirror h) (baseFor h t + (256 * param h.ta + param h.sa)) = true := by
  cases ha : h.ta with
  | none => simp [ha] at hta
  | some a =>
  cases hs : h.sa with
  | none => simp [hs] at hsa
  | some b =>
    simp only [ha, hs, atMost, baseOk, Bool.and_eq_true, decide_eq_true_eq] at bta bsa hp hf
    simp only [mirror, ha, hs, param]
    simp only [fixedIdOk, isParam, Bool.and_eq_true, Bool.or_eq_true, decide_eq_true_eq]
    unfold idBasePart idTargetField idSourceField
    cases t <;> simp only [baseFor] <;> omega

@[simp] theorem mirror_mode (h : Half) : (mirror h).mode = h.mode := rfl
@[simp] theorem mirror_rxid (h : Half) : (mirror h).rxid = h.txid := rfl
@[simp] theorem mirror_sa (h : Half) : (mirror h).sa = h.ta := rfl
@[simp] theorem mirror_ae (h : Half) : (mirror h).ae = h.ae := rfl

theorem mirror_receives (h : Half) (t : Tat) (msg : CanMsg) (hw : h.txWf = true)
    (hm : EmittedFrameOk h t msg) : receptionCondition (mirror h) msg = true := by
  obtain ⟨hid, hext, rest, hdata⟩ := hm
  simp only [Half.txWf, Half.wf, Bool.and_eq_true, Bool.not_eq_true'] at hw
  obtain ⟨⟨⟨⟨⟨⟨⟨⟨⟨hta, hsa⟩, hae⟩, _⟩, hp⟩, hf⟩, _⟩, hpres⟩, _⟩, hrx⟩ := hw
  unfold receptionCondition
  rw [mirror_mode, hext, ← hdata, hid]
  unfold emittedId emittedPrefix
  unfold presence at hpres
  cases hmode : h.mode <;> simp only [hmode, scheme, hrx, Bool.and_eq_true, Bool.false_or] at hpres ⊢ <;>
    simp [isParam_param, firstByteIs_prefix, fixedIdOk_mirror, *]

theorem prefix_of_emittedOk (h : Half) (t : Tat) (msg : CanMsg) (hid : msg.id = h.txId t)
    (hext : msg.ext = h.mode.is29) (hdata : h.txPrefix <+: msg.data) : EmittedFrameOk h t msg := by
  rw [txId_eq_emittedId] at hid
  rw [txPrefix_eq_emittedPrefix] at hdata
  rw [← uses29bitIds_eq] at hext
  exact ⟨hid, hext, hdata⟩

theorem mirror_isForMe (h : Half) (t : Tat) (msg : CanMsg) (hw : h.txWf = true)
    (hm : EmittedFrameOk h t msg) : (mirror h).isForMe msg = true := by
  rw [isForMe_eq_receptionCondition]; exact mirror_receives h t msg hw hm

/-! ### E. frames that are not for me -/

/-- What the rx loop does with a frame that is not for this layer. -/
def skipFrame (s : State) (dt : Nat) (m : CanMsg) (rest : List (Nat × CanMsg)) : State :=
  (({ s with inbox := rest, now := s.now + dt } : State).emit (.rx (s.now + dt) m)).checkTimeoutsRx

/-- The same clock advance with no frame at all. -/
def tick (s : State) (dt : Nat) : State :=
  ({ s with now := s.now + dt } : State).checkTimeoutsRx

theorem skipFrame_addr (s dt m rest) : (skipFrame s dt m rest).addr = s.addr := by
  unfold skipFrame checkTimeoutsRx; grind [stopReceiving, State.error, emit]

theorem rxLoop_ignored (doTx : Bool) (s : State) (st : Stats) (dt : Nat) (m : CanMsg)
    (rest : List (Nat × CanMsg)) (h : s.addr.rx.isForMe m = false) :
    rxLoop doTx s st ((dt, m) :: rest) =
      if doTx && (skipFrame s dt m rest).txTimeDriven then
        (skipFrame s dt m rest, { st with received := st.received + 1 }, true)
      else rxLoop doTx (skipFrame s dt m rest) { st with received := st.received + 1 } rest := by
  have hf : (skipFrame s dt m rest).addr.rx.isForMe m = false := by
    rw [skipFrame_addr]; exact h
  rw [rxLoop]
  unfold skipFrame at hf ⊢
  simp only [emit] at hf ⊢
  simp [hf]

theorem skipFrame_eq_tick (s dt m rest) (L : List Ev) (I : List (Nat × CanMsg)) :
    { skipFrame s dt m rest with log := L, inbox := I } = { tick s dt with log := L, inbox := I } := by
  unfold skipFrame tick checkTimeoutsRx
  simp only [emit, State.error, stopReceiving]
  by_cases hto : s.timerCf.timedOut (s.now + dt) = true
  · simp only [hto, ↓reduceIte]
  · simp only [hto, Bool.false_eq_true, ↓reduceIte]


theorem rxLoop_accepted (doTx : Bool) (s : State) (st : Stats) (dt : Nat) (m : CanMsg)
    (rest : List (Nat × CanMsg)) (h : s.addr.rx.isForMe m = true) :
    rxLoop doTx s st ((dt, m) :: rest) =
      (let r := (skipFrame s dt m rest).processRx m
       let st1 : Stats := { st with received := st.received + 1, processed := st.processed + 1 }
       let st' : Stats := if r.2.2 then { st1 with frames := st1.frames + 1 } else st1
       if r.2.1 then (r.1, st', false)
       else if doTx && r.1.txTimeDriven then (r.1, st', true)
       else rxLoop doTx r.1 st' rest) := by
  have hf : (skipFrame s dt m rest).addr.rx.isForMe m = true := by
    rw [skipFrame_addr]; exact h
  rw [rxLoop]
  unfold skipFrame at hf ⊢
  simp only [emit] at hf ⊢
  simp only [hf, if_true]

/-- two states agree on every field except the trace `log` and the bus-side `inbox` -/
def Agree (a b : State) : Prop :=
  ({ a with log := [], inbox := [] } : State) = { b with log := [], inbox := [] }

theorem Agree.refl (a : State) : Agree a a := rfl

theorem Agree.trans {a b c : State} (h1 : Agree a b) (h2 : Agree b c) : Agree a c := by
  unfold Agree at *; rw [h1, h2]

theorem agree_of_skipFrame_tick (s : State) (dt m rest) : Agree (skipFrame s dt m rest) (tick s dt) :=
  skipFrame_eq_tick s dt m rest [] []

theorem Agree.tick {a b : State} (h : Agree a b) (dt : Nat) : Agree (tick a dt) (tick b dt) := by
  unfold Agree at h
  simp only [State.mk.injEq] at h
  obtain ⟨h1, h2, h3, h4, h5, h6, h7, h8, h9, h10, h11, h12, h13, h14, h15, h16, h17, h18, h19, h20,
    h21, h22, h23, h24, h25, h26⟩ := h
  unfold Agree C09.tick checkTimeoutsRx
  simp only [State.error, emit, stopReceiving, h3, h10]
  by_cases hto : b.timerCf.timedOut (b.now + dt) = true
  · simp only [hto, ↓reduceIte, State.mk.injEq]
    simp [*]
  · simp only [hto, Bool.false_eq_true, ↓reduceIte, State.mk.injEq]
    simp [*]

/-- waiting with nothing on the bus: the clock advances by each delay in turn and
    `_check_timeouts_rx` runs each time. -/
def idleFor (s : State) : List Nat → State
  | [] => s
  | dt :: dts => idleFor (C09.tick s dt) dts

theorem tick_zero (s : State) : C09.tick s 0 = s.checkTimeoutsRx := rfl

theorem Agree.idleFor {a b : State} (h : Agree a b) (dts : List Nat) :
    Agree (idleFor a dts) (idleFor b dts) := by
  induction dts generalizing a b with
  | nil => exact h
  | cons dt dts ih => exact ih (h.tick dt)

theorem Agree.checkTimeoutsRx {a b : State} (h : Agree a b) :
    Agree a.checkTimeoutsRx b.checkTimeoutsRx := by
  rw [← tick_zero, ← tick_zero]; exact h.tick 0

theorem skipFrame_txTimeDriven (s : State) (dt m rest) :
    (skipFrame s dt m rest).txTimeDriven = s.txTimeDriven := by
  have h : (skipFrame s dt m rest).txState = s.txState := by
    unfold skipFrame State.checkTimeoutsRx
    simp only [emit, State.error, stopReceiving]
    by_cases hto : s.timerCf.timedOut (s.now + dt) = true
    · simp only [hto, ↓reduceIte]
    · simp only [hto, Bool.false_eq_true, ↓reduceIte]
  unfold txTimeDriven
  rw [h]

theorem rxLoop_all_ignored (doTx : Bool) (inbox : List (Nat × CanMsg)) : ∀ (s : State) (st : Stats),
    (∀ x ∈ inbox, s.addr.rx.isForMe x.2 = false) → (doTx && s.txTimeDriven) = false →
    Agree (rxLoop doTx s st inbox).1 (idleFor s (inbox.map (·.1))).checkTimeoutsRx ∧
    (rxLoop doTx s st inbox).2 = ({ st with received := st.received + inbox.length }, false) := by
  induction inbox with
  | nil =>
    intro s st _ _
    rw [rxLoop]
    refine ⟨?_, by simp⟩
    simp only [List.map_nil, idleFor]
    apply Agree.checkTimeoutsRx
    rfl
  | cons x rest ih =>
    intro s st hall htd
    obtain ⟨dt, m⟩ := x
    have hm : s.addr.rx.isForMe m = false := hall (dt, m) (by simp)
    rw [rxLoop_ignored doTx s st dt m rest hm]
    have htd' : (doTx && (skipFrame s dt m rest).txTimeDriven) = false := by
      rw [skipFrame_txTimeDriven]; exact htd
    rw [htd']
    simp only [Bool.false_eq_true, if_false]
    have hall' : ∀ x ∈ rest, (skipFrame s dt m rest).addr.rx.isForMe x.2 = false := by
      intro x hx; rw [skipFrame_addr]; exact hall x (by simp [hx])
    obtain ⟨h1, h2⟩ := ih (skipFrame s dt m rest) { st with received := st.received + 1 } hall' htd'
    refine ⟨?_, ?_⟩
    · simp only [List.map_cons, idleFor]
      exact Agree.trans h1 (((agree_of_skipFrame_tick s dt m rest).idleFor _).checkTimeoutsRx)
    · rw [h2]; simp only [List.length_cons, Prod.mk.injEq, and_true]
      congr 1; omega

/-! ### F. every frame handed to the driver carries the documented identifier and prefix -/

theorem makeTxMsg_spec (c : Cfg) (a : Addr) (arbId : Nat) (d : Bytes) (msg : CanMsg)
    (h : makeTxMsg c a arbId d = some msg) :
    msg.id = arbId ∧ msg.ext = a.tx.mode.is29 ∧ d <+: msg.data := by
  unfold makeTxMsg pad at h
  split at h
  · simp at h
  · rename_i pd hp
    split at hp
    · simp at hp
    · split at h
      · simp at h
      · injection hp with hp
        injection h with h
        subst h; subst hp
        exact ⟨rfl, rfl, List.prefix_append _ _⟩

theorem makeTxMsg_ok (c : Cfg) (a : Addr) (t : Tat) (d : Bytes) (msg : CanMsg)
    (h : makeTxMsg c a (a.tx.txId t) d = some msg) (hp : a.tx.txPrefix <+: d) :
    EmittedFrameOk a.tx t msg := by
  obtain ⟨h1, h2, h3⟩ := makeTxMsg_spec c a _ d msg h
  exact prefix_of_emittedOk _ _ _ h1 h2 (List.IsPrefix.trans hp h3)

theorem makeFlowControl_ok (c : Cfg) (a : Addr) (st : Nat) (msg : CanMsg)
    (h : makeFlowControl c a st = some msg) : EmittedFrameOk a.tx .physical msg :=
  makeTxMsg_ok c a .physical _ msg h (List.prefix_append _ _)


/-- the model's Single Frame / First Frame decision in `startTx` (`_process_tx`, IDLE branch):
    the payload, the PCI (1 byte, or 2 with the escape sequence) and the address prefix fit `tx_data_length`. -/
def sendsSingleFrame (s : State) (r : Req) : Bool :=
  let pciLen := if r.remaining + s.txPrefixLen ≤ 7 ∧ s.cfg.txMinLen.getD 0 ≤ 8 then 1 else 2
  decide (r.size + pciLen + s.txPrefixLen ≤ s.cfg.txDl)

theorem sendsSingleFrame_eq (s : State) (r : Req) :
    sendsSingleFrame s r =
      decide (r.size + (if (decide (r.remaining + s.txPrefixLen ≤ 7) &&
        !(match s.cfg.txMinLen with | some m => decide (m > 8) | none => false)) = true then 1 else 2)
        + s.txPrefixLen ≤ s.cfg.txDl) := by
  unfold sendsSingleFrame
  cases s.cfg.txMinLen <;> simp

/-- target address type of the frame that starts the transmission of `r`. -/
def startTat (s : State) (r : Req) : Tat := if sendsSingleFrame s r then r.tat else .physical

@[simp] theorem consumeActive_addr (s : State) (r n e) : (s.consumeActive r n e).1.addr = s.addr := by
  unfold consumeActive; grind [emit]
@[simp] theorem consumeActive_cfg (s : State) (r n e) : (s.consumeActive r n e).1.cfg = s.cfg := by
  unfold consumeActive; grind [emit]
@[simp] theorem consumeActive_standby (s : State) (r n e) :
    (s.consumeActive r n e).1.standby = s.standby := by
  unfold consumeActive; grind [emit]
@[simp] theorem stopSending_addr (s : State) (b) : (s.stopSending b).addr = s.addr := by
  unfold stopSending; grind [emit]
@[simp] theorem stopSending_standby (s : State) (b) : (s.stopSending b).standby = none := by
  unfold stopSending; grind [emit]

theorem startTx_spec (s : State) (r : Req) (allowed : Nat) (s' : State) (out : Option CanMsg)
    (h : s.startTx r allowed = (s', out)) :
    s'.addr = s.addr ∧
    (∀ msg, s'.standby = some msg →
        s.standby = some msg ∨ EmittedFrameOk s.addr.tx (startTat s r) msg) ∧
    (∀ msg, out = some msg → EmittedFrameOk s.addr.tx (startTat s r) msg) := by
  unfold startTx at h
  extract_lets pl bigMin sizeOnFirst off total at h
  have hss : sendsSingleFrame s r = decide (total + off + pl ≤ s.cfg.txDl) :=
    sendsSingleFrame_eq s r
  unfold startTat
  rw [hss]
  by_cases hc : total + off + pl ≤ s.cfg.txDl
  · rw [if_pos hc] at h
    simp only [hc, if_true, decide_true]
    have h1 := consumeActive_addr s r total true
    have h2 := consumeActive_standby s r total true
    generalize s.consumeActive r total true = ca at h h1 h2
    obtain ⟨s1, r1, res⟩ := ca
    simp only [] at h1 h2 h
    cases res with
    | none =>
      simp only [Prod.mk.injEq] at h
      obtain ⟨rfl, rfl⟩ := h
      grind [State.error, emit, stopSending_standby, stopSending_addr]
    | some payload =>
      simp only [] at h
      split at h
      · simp only [Prod.mk.injEq] at h
        obtain ⟨rfl, rfl⟩ := h
        grind [raise]
      · rename_i msg hmk
        rw [h1] at hmk
        have hok := makeTxMsg_ok _ _ _ _ _ hmk (by simp [List.append_assoc])
        grind [stopSending_standby, stopSending_addr]
  · rw [if_neg hc] at h
    simp only [hc, decide_false, Bool.false_eq_true, if_false]
    rename_i s0 short dataLen hdr
    have h1 := consumeActive_addr s0 r dataLen true
    have h2 := consumeActive_standby s0 r dataLen true
    generalize s0.consumeActive r dataLen true = ca at h h1 h2
    obtain ⟨s1, r1, res⟩ := ca
    simp only [s0] at h1 h2 h
    cases res with
    | none =>
      simp only [Prod.mk.injEq] at h
      obtain ⟨rfl, rfl⟩ := h
      grind [State.error, emit, stopSending_standby, stopSending_addr]
    | some payload =>
      simp only [] at h
      split at h
      · simp only [Prod.mk.injEq] at h
        obtain ⟨rfl, rfl⟩ := h
        grind [raise]
      · rename_i msg hmk
        rw [h1] at hmk
        have hok := makeTxMsg_ok _ _ _ _ _ hmk (by simp [List.append_assoc])
        grind [startRxFcTimer]

theorem any_of_startTat (h : Half) (s : State) (r : Req) (msg : CanMsg)
    (hm : EmittedFrameOk h (startTat s r) msg) : EmittedFrameOkAny h msg := by
  unfold EmittedFrameOkAny
  cases ht : startTat s r <;> rw [ht] at hm <;> simp [hm]

/-- relation between the state before and after a step of the transmit side: same address, and
    a standby message is the old one or a documented frame. -/
def Core (s s' : State) : Prop :=
  s'.addr = s.addr ∧
  ∀ msg, s'.standby = some msg → s.standby = some msg ∨ EmittedFrameOkAny s.addr.tx msg

theorem Core.refl (s : State) : Core s s := ⟨rfl, fun _ h => Or.inl h⟩

theorem Core.trans {a b c : State} (h1 : Core a b) (h2 : Core b c) : Core a c := by
  unfold Core at *; grind

theorem Core.of_eq {s s' : State} (ha : s'.addr = s.addr)
    (hs : s'.standby = s.standby ∨ s'.standby = none) : Core s s' := by
  unfold Core; grind

theorem readTxQueue_spec (allowed : Nat) (q : List Req) : ∀ (s s' : State) (out : Option CanMsg),
    s.readTxQueue allowed q = (s', out) →
    Core s s' ∧ ∀ msg, out = some msg → EmittedFrameOkAny s.addr.tx msg := by
  induction q with
  | nil =>
    intro s s' out h
    simp only [readTxQueue, Prod.mk.injEq] at h
    obtain ⟨rfl, rfl⟩ := h
    exact ⟨Core.of_eq rfl (Or.inl rfl), by simp⟩
  | cons r rest ih =>
    intro s s' out h
    rw [readTxQueue] at h
    simp only [] at h
    split at h
    · obtain ⟨hs, ho⟩ := ih _ _ _ h
      exact ⟨Core.trans (Core.of_eq rfl (Or.inl rfl)) hs, ho⟩
    · obtain ⟨ha, hs, ho⟩ := startTx_spec _ _ _ _ _ h
      exact ⟨⟨ha, fun msg hm => (hs msg hm).imp id (any_of_startTat _ _ _ _)⟩,
        fun msg hm => any_of_startTat _ _ _ _ (ho msg hm)⟩

theorem handleFc_core (s : State) (fc : FcFrame) : Core s (s.handleFc fc) := by
  apply Core.of_eq
  · unfold handleFc; grind [State.error, emit, stopSending_addr, startRxFcTimer]
  · unfold handleFc; grind [State.error, emit, stopSending_standby, startRxFcTimer]

theorem transmitCf_spec (s : State) (allowed : Nat) (s' : State) (out : Option CanMsg) (imm : Bool)
    (h : s.transmitCf allowed = (s', out, imm)) :
    Core s s' ∧ ∀ msg, out = some msg → EmittedFrameOk s.addr.tx .physical msg := by
  unfold transmitCf at h
  split at h
  · simp only [Prod.mk.injEq] at h; obtain ⟨rfl, rfl, rfl⟩ := h
    exact ⟨Core.of_eq rfl (Or.inl rfl), by simp⟩
  · simp only [Prod.mk.injEq] at h; obtain ⟨rfl, rfl, rfl⟩ := h
    exact ⟨Core.of_eq rfl (Or.inl rfl), by simp⟩
  · rename_i rbs r hrbs hact
    split at h
    · extract_lets dataLen payloadLen at h
      split at h
      · have h1 := consumeActive_addr s r payloadLen false
        have h2 := consumeActive_standby s r payloadLen false
        generalize s.consumeActive r payloadLen false = ca at h h1 h2
        obtain ⟨s1, r1, res⟩ := ca
        simp only [] at h1 h2 h
        cases res with
        | none =>
          simp only [Prod.mk.injEq] at h; obtain ⟨rfl, rfl, rfl⟩ := h
          exact ⟨Core.of_eq h1 (Or.inl h2), by simp⟩
        | some payload =>
          by_cases hl : payload.length > 0
          · cases hmk : makeTxMsg s1.cfg s1.addr (s1.addr.tx.txId .physical)
                (s1.addr.tx.txPrefix ++ [u8 (0x20 + s1.txSeq)] ++ payload) with
            | none =>
              simp only [hl, hmk, if_true, Prod.mk.injEq] at h
              obtain ⟨rfl, rfl, rfl⟩ := h
              exact ⟨Core.of_eq h1 (Or.inl h2), by simp⟩
            | some msg =>
              simp only [hl, hmk, if_true] at h
              rw [h1] at hmk
              have hok := makeTxMsg_ok _ _ _ _ _ hmk (by simp [List.append_assoc])
              refine ⟨Core.of_eq ?_ ?_, ?_⟩ <;>
                grind [State.error, emit, stopSending_standby, stopSending_addr, startRxFcTimer]
          · simp only [hl, if_false] at h
            refine ⟨Core.of_eq ?_ ?_, ?_⟩ <;>
              grind [State.error, emit, stopSending_standby, stopSending_addr, startRxFcTimer]
      · simp only [Prod.mk.injEq] at h; obtain ⟨rfl, rfl, rfl⟩ := h
        exact ⟨Core.of_eq rfl (Or.inl rfl), by simp⟩
    · simp only [Prod.mk.injEq] at h; obtain ⟨rfl, rfl, rfl⟩ := h
      exact ⟨Core.of_eq rfl (Or.inl rfl), by simp⟩

/-- no new `.tx` trace entry between two states -/
def NoNewTx (s s' : State) : Prop := ∀ t m, Ev.tx t m ∈ s'.log → Ev.tx t m ∈ s.log

theorem NoNewTx.refl (s : State) : NoNewTx s s := fun _ _ h => h
theorem NoNewTx.trans {a b c : State} (h1 : NoNewTx a b) (h2 : NoNewTx b c) : NoNewTx a c :=
  fun t m h => h1 t m (h2 t m h)

theorem processRx_noTx (s : State) (m : CanMsg) : NoNewTx s (s.processRx m).1 := by
  intro t m' h
  unfold processRx startReception at h
  grind [deliver, stopReceiving, State.error, emit, requestFc, startRxCfTimer]

theorem stopSending_noTx (s : State) (b : Bool) : NoNewTx s (s.stopSending b) := by
  intro t m' h
  unfold stopSending at h
  grind [emit]

theorem consumeActive_noTx (s : State) (r n e) : NoNewTx s (s.consumeActive r n e).1 := by
  intro t m' h
  unfold consumeActive at h
  grind [emit]

theorem startTx_noTx (s : State) (r : Req) (allowed : Nat) : NoNewTx s (s.startTx r allowed).1 := by
  intro t m' h
  unfold startTx at h
  have h1 := consumeActive_noTx
  have h2 := stopSending_noTx
  unfold NoNewTx at h1 h2
  grind [State.error, emit, raise, startRxFcTimer]

theorem readTxQueue_noTx (allowed : Nat) (q : List Req) : ∀ s : State,
    NoNewTx s (s.readTxQueue allowed q).1 := by
  induction q with
  | nil => intro s t m h; simpa [readTxQueue] using h
  | cons r rest ih =>
    intro s
    rw [readTxQueue]
    simp only []
    split
    · refine NoNewTx.trans ?_ (ih _)
      intro t m h
      simpa [emit] using h
    · refine NoNewTx.trans ?_ (startTx_noTx _ _ _)
      exact fun _ _ h => h

theorem handleFc_noTx (s : State) (fc : FcFrame) : NoNewTx s (s.handleFc fc) := by
  intro t m' h
  unfold handleFc at h
  have h2 := stopSending_noTx
  unfold NoNewTx at h2
  grind [State.error, emit, startRxFcTimer]

theorem transmitCf_noTx (s : State) (allowed : Nat) : NoNewTx s (s.transmitCf allowed).1 := by
  intro t m' h
  unfold transmitCf at h
  have h1 := consumeActive_noTx
  have h2 := stopSending_noTx
  unfold NoNewTx at h1 h2
  grind [State.error, emit, raise, startRxFcTimer]

/-- relation between the state before and after a step of the transmit side: same address,
    a standby message is the old one or a documented frame, no `.tx` trace entry is added. -/
def Step (s s' : State) : Prop := Core s s' ∧ NoNewTx s s'

theorem Step.refl (s : State) : Step s s := ⟨Core.refl s, NoNewTx.refl s⟩

theorem Step.trans {a b c : State} (h1 : Step a b) (h2 : Step b c) : Step a c :=
  ⟨Core.trans h1.1 h2.1, NoNewTx.trans h1.2 h2.2⟩

theorem Step.of_eq {s s' : State} (ha : s'.addr = s.addr)
    (hs : s'.standby = s.standby ∨ s'.standby = none) (hl : NoNewTx s s') : Step s s' :=
  ⟨Core.of_eq ha hs, hl⟩

theorem Step.addr {s s' : State} (h : Step s s') : s'.addr = s.addr := h.1.1

theorem readTxQueue_step (allowed : Nat) (q : List Req) (s s' : State) (out : Option CanMsg)
    (h : s.readTxQueue allowed q = (s', out)) :
    Step s s' ∧ ∀ msg, out = some msg → EmittedFrameOkAny s.addr.tx msg := by
  obtain ⟨h1, h2⟩ := readTxQueue_spec allowed q s s' out h
  have h3 := readTxQueue_noTx allowed q s
  rw [h] at h3
  exact ⟨⟨h1, h3⟩, h2⟩

theorem handleFc_step (s : State) (fc : FcFrame) : Step s (s.handleFc fc) :=
  ⟨handleFc_core s fc, handleFc_noTx s fc⟩

theorem transmitCf_step (s : State) (allowed : Nat) (s' : State) (out : Option CanMsg) (imm : Bool)
    (h : s.transmitCf allowed = (s', out, imm)) :
    Step s s' ∧ ∀ msg, out = some msg → EmittedFrameOk s.addr.tx .physical msg := by
  obtain ⟨h1, h2⟩ := transmitCf_spec s allowed s' out imm h
  have h3 := transmitCf_noTx s allowed
  rw [h] at h3
  exact ⟨⟨h1, h3⟩, h2⟩

theorem finish_spec (s s6 s' : State) (out6 out : Option CanMsg) (imm6 imm : Bool)
    (hs : Step s s6)
    (h : (if s6.exc.isSome then (s6, (none : Option CanMsg), false) else
          match out6 with
          | some msg => ({ s6 with rl := s6.rl.inform s6.now msg.data.length }, some msg, imm6)
          | none => (s6, none, imm6)) = (s', out, imm))
    (ho : ∀ msg, out6 = some msg → s.standby = some msg ∨ EmittedFrameOkAny s.addr.tx msg) :
    Step s s' ∧ ∀ msg, out = some msg → s.standby = some msg ∨ EmittedFrameOkAny s.addr.tx msg := by
  split at h
  · simp only [Prod.mk.injEq] at h
    obtain ⟨rfl, rfl, rfl⟩ := h
    exact ⟨hs, by simp⟩
  · cases out6 with
    | some m6 =>
      simp only [Prod.mk.injEq] at h
      obtain ⟨rfl, rfl, rfl⟩ := h
      exact ⟨Step.trans hs (Step.of_eq rfl (Or.inl rfl) (fun _ _ h => h)), ho⟩
    | none =>
      simp only [Prod.mk.injEq] at h
      obtain ⟨rfl, rfl, rfl⟩ := h
      exact ⟨hs, by simp⟩

theorem processTx_spec (s s' : State) (out : Option CanMsg) (imm : Bool)
    (h : s.processTx = (s', out, imm)) :
    Step s s' ∧ ∀ msg, out = some msg → s.standby = some msg ∨ EmittedFrameOkAny s.addr.tx msg := by
  unfold processTx at h
  extract_lets allowed s0 pend at h
  have hp : (pend.1.addr = s.addr ∧ pend.1.standby = s.standby ∧ pend.1.log = s.log) ∧
      ∀ msg, pend.2 = some (some msg) → EmittedFrameOk s.addr.tx .physical msg := by
    clear h
    have key := makeFlowControl_ok
    simp only [pend, s0]
    grind [raise, startRxCfTimer]
  clear_value pend
  obtain ⟨s1, o⟩ := pend
  obtain ⟨⟨hp1, hp2, hp4⟩, hp3⟩ := hp
  simp only [] at hp1 hp2 hp3 hp4
  have hs1 : Step s s1 := Step.of_eq hp1 (Or.inl hp2) (by intro t m h; rw [← hp4]; exact h)
  rcases o with _ | _ | msg0
  · -- no pending flow control: the FSM runs
    simp -zeta only [] at h
    extract_lets fc s2 at h
    split at h
    · rename_i s3 hq
      have hn := stopSending_noTx
      unfold NoNewTx at hn
      have hk : s3.addr = s1.addr ∧ s3.standby = none ∧ NoNewTx s1 s3 := by
        unfold NoNewTx
        grind [State.error, emit, stopSending_addr, stopSending_standby]
      simp only [Prod.mk.injEq] at h
      obtain ⟨rfl, rfl, rfl⟩ := h
      exact ⟨Step.trans hs1 (Step.of_eq hk.1 (Or.inr hk.2.1) hk.2.2), by simp⟩
    · rename_i s3 hq
      have hk : Step s1 s3 := by
        have := handleFc_step s2
        have e2 : Step s1 s2 := Step.of_eq rfl (Or.inl rfl) (fun _ _ h => h)
        simp only [fc] at hq
        split at hq
        · split at hq
          · simp at hq
          · simp only [Prod.mk.injEq, and_true] at hq
            subst hq
            exact Step.trans e2 (this _)
        · simp only [Prod.mk.injEq, and_true] at hq
          subst hq
          exact e2
      clear hq
      extract_lets +onlyGivenNames s4 at h
      have hn := stopSending_noTx
      unfold NoNewTx at hn
      have hk4 : Step s3 s4 := by
        apply Step.of_eq
        · simp only [s4]; split <;> simp [State.error, emit, stopSending_addr]
        · simp only [s4]; split <;> simp [State.error, emit, stopSending_standby]
        · unfold NoNewTx; simp only [s4]; grind [State.error, emit]
      split at h
      · simp only [Prod.mk.injEq] at h
        obtain ⟨rfl, rfl, rfl⟩ := h
        exact ⟨Step.trans hs1 (Step.trans hk (Step.trans hk4 (Step.of_eq rfl (Or.inl rfl) (fun _ _ h => h)))), by simp⟩
      · extract_lets +onlyGivenNames s5 at h
        have hk5 : Step s4 s5 := by
          apply Step.of_eq
          · simp only [s5]; grind [stopSending_addr]
          · simp only [s5]; grind [stopSending_standby]
          · unfold NoNewTx; simp only [s5]; grind
        have h05 : Step s s5 := Step.trans hs1 (Step.trans hk (Step.trans hk4 hk5))
        cases hst : s5.txState
        · -- idle
          simp only [hst] at h
          have hq := readTxQueue_step allowed s5.txQueue s5
          generalize s5.readTxQueue allowed s5.txQueue = rq at h hq
          obtain ⟨s6, out6⟩ := rq
          obtain ⟨hq1, hq2⟩ := hq s6 out6 rfl
          simp only [] at h
          refine finish_spec s s6 s' out6 out false imm (Step.trans h05 hq1) h ?_
          intro msg hm
          right
          rw [← h05.addr]
          exact hq2 msg hm
        · -- waitFc
          simp only [hst] at h
          exact finish_spec s s5 s' none out false imm h05 h (by simp)
        · -- transmitCf
          simp only [hst] at h
          have hq := transmitCf_step s5 allowed
          generalize s5.transmitCf allowed = rq at h hq
          obtain ⟨s6, out6, imm6⟩ := rq
          obtain ⟨hq1, hq2⟩ := hq s6 out6 imm6 rfl
          simp only [] at h
          refine finish_spec s s6 s' out6 out imm6 imm (Step.trans h05 hq1) h ?_
          intro msg hm
          right; left
          rw [← h05.addr]
          exact hq2 msg hm
        · -- sfStandby
          simp only [hst] at h
          cases hsb : s5.standby with
          | none =>
            simp only [hsb] at h
            exact finish_spec s s5 s' none out false imm h05 h (by simp)
          | some m5 =>
            simp only [hsb] at h
            by_cases hlen : m5.data.length ≤ allowed
            · simp only [hlen, if_true, reduceCtorEq, if_false] at h
              refine finish_spec s _ s' (some m5) out false imm
                (Step.trans h05 (Step.of_eq ?_ (Or.inr ?_) ?_)) h ?_
              · simp
              · simp
              · exact NoNewTx.trans (fun _ _ h => h) (stopSending_noTx _ _)
              · intro msg hm
                injection hm with hm
                subst hm
                exact h05.1.2 _ hsb
            · simp only [hlen, if_false] at h
              exact finish_spec s s5 s' none out false imm h05 h (by simp)
        · -- ffStandby
          simp only [hst] at h
          cases hsb : s5.standby with
          | none =>
            simp only [hsb] at h
            exact finish_spec s s5 s' none out false imm h05 h (by simp)
          | some m5 =>
            simp only [hsb] at h
            by_cases hlen : m5.data.length ≤ allowed
            · simp only [hlen, if_true] at h
              have e2 := h05.1.2 m5 hsb
              split at h <;>
                (simp only [Prod.mk.injEq] at h
                 obtain ⟨rfl, rfl, rfl⟩ := h
                 refine ⟨Step.trans h05 (Step.of_eq (by simp [startRxFcTimer])
                   (Or.inr (by simp [startRxFcTimer])) (fun _ _ h => h)), ?_⟩
                 intro msg hm
                 first | (cases hm; done) | (cases hm; exact e2))
            · simp only [hlen, if_false] at h
              exact finish_spec s s5 s' none out false imm h05 h (by simp)
  · simp only [Prod.mk.injEq] at h
    obtain ⟨rfl, rfl, rfl⟩ := h
    exact ⟨hs1, by simp⟩
  · simp only [Prod.mk.injEq] at h
    obtain ⟨rfl, rfl, rfl⟩ := h
    refine ⟨hs1, fun msg hm => Or.inr (Or.inl ?_)⟩
    apply hp3
    rw [hm]

/-! ### G. the whole `process()` call -/

/-- Invariant of a layer whose address is `a` (transmit half `a.tx`): the standby message is a documented
    frame, and so is every frame handed to `txfn` since the trace was `L0`. -/
def Good (a : Addr) (L0 : List Ev) (s : State) : Prop :=
  s.addr = a ∧
  (∀ msg, s.standby = some msg → EmittedFrameOkAny a.tx msg) ∧
  (∀ t m, Ev.tx t m ∈ s.log → Ev.tx t m ∈ L0 ∨ EmittedFrameOkAny a.tx m)

theorem Good.step {a : Addr} {L0 : List Ev} {s s' : State} (hg : Good a L0 s) (hs : Step s s') :
    Good a L0 s' := by
  obtain ⟨ha, hsb, hl⟩ := hg
  obtain ⟨⟨ha', hsb'⟩, hl'⟩ := hs
  refine ⟨by rw [ha', ha], ?_, fun t m hm => hl t m (hl' t m hm)⟩
  intro msg hm
  rcases hsb' msg hm with h1 | h1
  · exact hsb msg h1
  · rw [ha] at h1; exact h1

theorem checkTimeoutsRx_step (s : State) : Step s s.checkTimeoutsRx := by
  apply Step.of_eq
  · unfold checkTimeoutsRx; grind [State.error, emit, stopReceiving]
  · unfold checkTimeoutsRx; grind [State.error, emit, stopReceiving]
  · unfold NoNewTx checkTimeoutsRx; grind [State.error, emit, stopReceiving]

theorem processRx_step (s : State) (m : CanMsg) : Step s (s.processRx m).1 := by
  apply Step.of_eq
  · unfold processRx startReception
    grind [deliver, stopReceiving, State.error, emit, requestFc, startRxCfTimer]
  · left
    unfold processRx startReception
    grind [deliver, stopReceiving, State.error, emit, requestFc, startRxCfTimer]
  · intro t m' h
    unfold processRx startReception at h
    grind [deliver, stopReceiving, State.error, emit, requestFc, startRxCfTimer]

theorem rxLoop_step (doTx : Bool) (inbox : List (Nat × CanMsg)) : ∀ (s : State) (st : Stats),
    Step s (rxLoop doTx s st inbox).1 := by
  induction inbox with
  | nil =>
    intro s st
    rw [rxLoop]
    refine Step.trans ?_ (checkTimeoutsRx_step _)
    exact Step.of_eq rfl (Or.inl rfl) (by intro t m h; simpa [emit] using h)
  | cons x rest ih =>
    intro s st
    obtain ⟨dt, m⟩ := x
    rw [rxLoop]
    simp only []
    have h0 : Step s ((({ s with inbox := rest, now := s.now + dt } : State).emit
        (.rx (s.now + dt) m)).checkTimeoutsRx) := by
      refine Step.trans ?_ (checkTimeoutsRx_step _)
      exact Step.of_eq rfl (Or.inl rfl) (by intro t m h; simpa [emit] using h)
    split
    · have h1 := processRx_step ((({ s with inbox := rest, now := s.now + dt } : State).emit
        (.rx (s.now + dt) m)).checkTimeoutsRx) m
      split
      · exact Step.trans h0 h1
      · split
        · exact Step.trans h0 h1
        · exact Step.trans (Step.trans h0 h1) (ih _ _)
    · split
      · exact h0
      · exact Step.trans h0 (ih _ _)

theorem processTx_good {a : Addr} {L0 : List Ev} (s : State) (hg : Good a L0 s) :
    Good a L0 s.processTx.1 ∧ ∀ msg, s.processTx.2.1 = some msg → EmittedFrameOkAny a.tx msg := by
  generalize hres : s.processTx = res
  obtain ⟨s', out, imm⟩ := res
  obtain ⟨hs, ho⟩ := processTx_spec s s' out imm hres
  refine ⟨hg.step hs, ?_⟩
  intro msg hm
  rcases ho msg hm with h1 | h1
  · exact hg.2.1 msg h1
  · rw [hg.1] at h1; exact h1

theorem txLoop_good {a : Addr} {L0 : List Ev} (f : Nat) : ∀ (s : State) (n : Nat), Good a L0 s →
    Good a L0 (txLoop f s n).1 := by
  induction f with
  | zero => intro s n hg; exact hg
  | succ f ih =>
    intro s n hg
    rw [txLoop]
    obtain ⟨hg1, ho⟩ := processTx_good s hg
    generalize s.processTx = res at hg1 ho
    obtain ⟨s1, out, imm⟩ := res
    simp only [] at hg1 ho ⊢
    split
    · exact hg1
    · have hg2 : Good a L0 (match out with
          | some m => (s1.emit (.tx s1.now m), n + 1)
          | none => (s1, n)).1 := by
        cases out with
        | none => exact hg1
        | some m =>
          refine ⟨hg1.1, hg1.2.1, ?_⟩
          intro t m' hm
          simp only [emit, List.mem_cons] at hm
          rcases hm with hm | hm
          · injection hm with _ hm
            subst hm
            exact Or.inr (ho _ rfl)
          · exact hg1.2.2 t m' hm
      split
      · exact hg2
      · split
        · exact ih _ _ hg2
        · exact hg2

theorem processLoop_good {a : Addr} {L0 : List Ev} (f : Nat) (doRx doTx : Bool) :
    ∀ (s : State) (st : Stats), Good a L0 s → Good a L0 (processLoop f doRx doTx s st).1 := by
  induction f with
  | zero => intro s st hg; exact hg
  | succ f ih =>
    intro s st hg
    rw [processLoop]
    split
    rename_i s1 st1 rxRun heq
    have hg1 : Good a L0 s1 := by
      split at heq
      · have := hg.step (rxLoop_step doTx s.inbox s st)
        rw [heq] at this
        exact this
      · injection heq with heq
        subst heq
        exact hg
    clear heq
    extract_lets s2
    have hg2 : Good a L0 s2 := hg1.step (Step.of_eq rfl (Or.inl rfl) (fun _ _ h => h))
    split
    rename_i s3 st3 run oof heq
    have hg3 : Good a L0 s3 := by
      split at heq
      · have := txLoop_good s2.txFuel s2 st1.sent hg2
        generalize txLoop s2.txFuel s2 st1.sent = r at heq this
        obtain ⟨a, b, c, d⟩ := r
        simp only [Prod.mk.injEq] at heq
        obtain ⟨rfl, _⟩ := heq
        exact this
      · injection heq with heq
        subst heq
        exact hg2
    split
    · exact hg3
    · split
      · exact hg3
      · split
        · exact ih _ _ hg3
        · exact hg3

theorem process_good {a : Addr} {L0 : List Ev} (s : State) (doRx doTx : Bool) (hg : Good a L0 s) :
    Good a L0 (s.process doRx doTx).1 :=
  processLoop_good _ _ _ _ _ hg

/-! ### H. all states reachable through the public operations -/

theorem stopSending_step (s : State) (b : Bool) : Step s (s.stopSending b) :=
  Step.of_eq (stopSending_addr s b) (Or.inr (stopSending_standby s b)) (stopSending_noTx s b)

theorem clearTxQueue_step (q : List Req) : ∀ s : State, Step s (s.clearTxQueue q) := by
  induction q with
  | nil => intro s; exact Step.of_eq rfl (Or.inl rfl) (fun _ _ h => h)
  | cons r rest ih =>
    intro s
    rw [clearTxQueue]
    refine Step.trans ?_ (ih _)
    exact Step.of_eq rfl (Or.inl rfl) (by intro t m h; simpa [emit] using h)

theorem reset_step (s : State) : Step s s.reset := by
  unfold reset
  extract_lets s1 s2 s3
  have h1 : Step s s1 := Step.of_eq rfl (Or.inl rfl) (fun _ _ h => h)
  have h2 : Step s1 s2 := clearTxQueue_step _ _
  have h3 : Step s2 s3 :=
    Step.trans (stopSending_step _ false) (Step.of_eq rfl (Or.inl rfl) (fun _ _ h => h))
  exact Step.trans h1 (Step.trans h2 (Step.trans h3 (Step.of_eq rfl (Or.inl rfl) (fun _ _ h => h))))

theorem send_step (s : State) (x : SendArgs) : Step s (s.send x).1 := by
  apply Step.of_eq
  · unfold send; grind
  · left; unfold send; grind
  · unfold NoNewTx send; grind

/-- States reachable from a freshly constructed layer by the public operations of the model
    (`send`, a frame arriving on the bus, `process`, `recv`, `stop_sending`, `stop_receiving`,
    `reset`, the clock, clearing the trace) and by the micro-steps the harness can single-step
    (`_process_rx`, `_process_tx`, `_check_timeouts_rx`, rate limiter update). -/
inductive Reach (c : Cfg) (a : Addr) : State → Prop
  | init : Reach c a (State.init c a)
  | send {s} (x : SendArgs) : Reach c a s → Reach c a (s.send x).1
  | frame {s} (dt : Nat) (m : CanMsg) : Reach c a s → Reach c a (s.pushFrame dt m)
  | process {s} (doRx doTx : Bool) : Reach c a s → Reach c a (s.process doRx doTx).1
  | recv {s} : Reach c a s → Reach c a s.recv.1
  | stopSending {s} (b : Bool) : Reach c a s → Reach c a (s.stopSending b)
  | stopReceiving {s} : Reach c a s → Reach c a s.stopReceiving
  | reset {s} : Reach c a s → Reach c a s.reset
  | setNow {s} (t : Nat) : Reach c a s → Reach c a { s with now := t }
  | clearLog {s} : Reach c a s → Reach c a { s with log := [] }
  | processRx {s} (m : CanMsg) : Reach c a s → Reach c a (s.processRx m).1
  | processTx {s} : Reach c a s → Reach c a s.processTx.1
  | checkTimeoutsRx {s} : Reach c a s → Reach c a s.checkTimeoutsRx
  | rlUpdate {s} : Reach c a s → Reach c a { s with rl := s.rl.update s.cfg.rlWindowNs s.now }

theorem reach_good (c : Cfg) (a : Addr) (s : State) (hr : Reach c a s) : Good a [] s := by
  induction hr with
  | init => exact ⟨rfl, by simp [State.init], by simp [State.init]⟩
  | send x _ ih => exact ih.step (send_step _ x)
  | frame dt m _ ih => exact ih.step (Step.of_eq rfl (Or.inl rfl) (fun _ _ h => h))
  | process doRx doTx _ ih => exact process_good _ _ _ ih
  | recv _ ih =>
    refine ih.step (Step.of_eq ?_ (Or.inl ?_) ?_) <;> unfold State.recv <;> split <;> first | rfl | exact fun _ _ h => h
  | stopSending b _ ih => exact ih.step (stopSending_step _ b)
  | stopReceiving _ ih => exact ih.step (Step.of_eq rfl (Or.inl rfl) (fun _ _ h => h))
  | reset _ ih => exact ih.step (reset_step _)
  | setNow t _ ih => exact ih.step (Step.of_eq rfl (Or.inl rfl) (fun _ _ h => h))
  | clearLog _ ih => exact ih.step (Step.of_eq rfl (Or.inl rfl) (by intro t m h; simp at h))
  | processRx m _ ih => exact ih.step (processRx_step _ m)
  | processTx _ ih => exact (processTx_good _ ih).1
  | checkTimeoutsRx _ ih => exact ih.step (checkTimeoutsRx_step _)
  | rlUpdate _ ih => exact ih.step (Step.of_eq rfl (Or.inl rfl) (fun _ _ h => h))

end Isotp.C09
