import Isotp.Proofs.Compose
/-
  Helper lemmas for C11 (abort-robust form): the receiver fed with the frames of several messages while the
  environment may, before / between / after any two frames, do ANY number of
    * reception-neutral steps (`RxSame`, exactly the steps `Rx.Feeds` allows),
    * `checkTimeoutsRx` at ANY time (expired or not),
    * `stopReceiving`,
    * clock advances, `processTx` passes, `processRx` on a Flow Control frame.
  Every gap between two frames is summarised by a `Gap` flag (quiet / reception stopped silently / N_Cr timeout
  fired), so that the theorems can say *which* messages may be missing.

  Part 1 (this file): the generalised feeding relation `FeedsA`, the bookkeeping (`errs`, `Adv`), what a gap does,
  and messages that are NOT hit by the fault: a segmented message is delivered iff no abort step occurs after its
  First Frame — from ANY receiver state; whatever happens the receiver is idle after its last frame.
-/
namespace Isotp.RxAbort
open Isotp Isotp.State Isotp.Rx Isotp.Compose

/-! ## A. gaps -/

/-- what happened to the reception FSM in the gap before a frame (or after the last one) -/
inductive Gap where
  /-- only reception-neutral steps, un-expired timeout checks included -/
  | quiet
  /-- `stop_receiving()` was called, no N_Cr timeout fired: reception aborted, nothing logged -/
  | stopped
  /-- an expired `checkTimeoutsRx` fired: reception aborted, `ConsecutiveFrameTimeout` logged -/
  | timedOut
  deriving DecidableEq, Repr

def Gap.isQuiet : Gap → Bool
  | .quiet => true
  | _ => false

/-- 1 if a timeout fired in the gap -/
def Gap.tmo : Gap → Nat
  | .timedOut => 1
  | _ => 0

def Gap.isStop : Gap → Bool
  | .stopped => true
  | _ => false

/-- several steps in a row: a timeout dominates (an error was logged), then a silent stop -/
def Gap.join : Gap → Gap → Gap
  | .timedOut, _ => .timedOut
  | _, .timedOut => .timedOut
  | .stopped, _ => .stopped
  | _, .stopped => .stopped
  | .quiet, .quiet => .quiet

theorem Gap.join_quiet_iff (a b : Gap) : (a.join b).isQuiet = true ↔ a.isQuiet = true ∧ b.isQuiet = true := by
  cases a <;> cases b <;> simp [Gap.join, Gap.isQuiet]

theorem Gap.join_tmo (a b : Gap) : (a.join b).tmo ≤ a.tmo + b.tmo ∧ a.tmo ≤ (a.join b).tmo ∧ b.tmo ≤ (a.join b).tmo := by
  cases a <;> cases b <;> simp [Gap.join, Gap.tmo]

theorem Gap.join_stop (a b : Gap) : (a.join b).isStop = true → a.isStop = true ∨ b.isStop = true := by
  cases a <;> cases b <;> simp [Gap.join, Gap.isStop]

theorem Gap.cases3 (a : Gap) : a.isQuiet = true ∨ a.isStop = true ∨ a.tmo = 1 := by
  cases a <;> simp [Gap.isQuiet, Gap.isStop, Gap.tmo]

/-- one step of the environment and its flag -/
inductive EnvStep : State → Gap → State → Prop
  /-- anything reception-neutral, as in `Rx.Feeds`: transmit passes, `send`, `recv`, clock, … -/
  | same {s s' : State} : RxSame s s' → EnvStep s .quiet s'
  /-- `_check_timeouts_rx` at any time: fires iff N_Cr has expired -/
  | check (s : State) : EnvStep s (if s.timerCf.timedOut s.now then .timedOut else .quiet) s.checkTimeoutsRx
  /-- `stop_receiving()` -/
  | stop (s : State) : EnvStep s .stopped s.stopReceiving
  /-- `_process_rx` on a Flow Control frame -/
  | fc (s : State) (m : CanMsg) (st bs stm cdl rdl : Nat) :
      decode m.data s.addr.rx.rxPrefixSize = some ⟨.fc st bs stm, cdl, rdl⟩ → EnvStep s .quiet (s.processRx m).1
  /-- the clock advances -/
  | advance (s : State) (dt : Nat) : EnvStep s .quiet (s.advance dt)
  /-- a `_process_tx` pass -/
  | tx (s : State) : EnvStep s .quiet s.processTx.1

/-- any number of environment steps; the flag is the join of the flags -/
inductive Env : State → Gap → State → Prop
  | nil (s : State) : Env s .quiet s
  | cons {s s1 s' : State} {a b : Gap} : EnvStep s a s1 → Env s1 b s' → Env s (a.join b) s'

/-- `FeedsA s fs bl s'`: the frames `fs` (data fields of CAN messages accepted by the address filter) are handed to
    `processRx` in order, starting from `s`; each frame comes with the flag of the gap BEFORE it, `bl` is the flag
    of the gap after the last frame. -/
inductive FeedsA : State → List (Gap × Bytes) → Gap → State → Prop
  | done {s s' : State} {f : Gap} : Env s f s' → FeedsA s [] f s'
  | frame {s s1 s' : State} {m : CanMsg} {f bl : Gap} {d : Bytes} {ds : List (Gap × Bytes)} :
      Env s f s1 → m.data = d → FeedsA (s1.processRx m).1 ds bl s' → FeedsA s ((f, d) :: ds) bl s'

theorem Env.single {s s' : State} {a : Gap} (h : EnvStep s a s') : Env s a s' := by
  have := Env.cons h (Env.nil s')
  cases a <;> exact this

/-- `Rx.Feeds` is the special case "every gap quiet" -/
theorem feedsA_of_feeds {fs : List Bytes} : ∀ {s s' : State}, Feeds s fs s' →
    FeedsA s (fs.map (fun d => (Gap.quiet, d))) .quiet s' := by
  induction fs with
  | nil =>
    intro s s' h
    cases h with
    | done h => exact .done (Env.single (.same h))
  | cons d ds ih =>
    intro s s' h
    cases h with
    | frame h1 hm h2 => exact .frame (Env.single (.same h1)) hm (ih h2)

theorem FeedsA.split {a b : List (Gap × Bytes)} {bl : Gap} : ∀ {s s' : State}, FeedsA s (a ++ b) bl s' →
    ∃ s1, FeedsA s a .quiet s1 ∧ FeedsA s1 b bl s' := by
  induction a with
  | nil => intro s s' h; exact ⟨s, .done (Env.nil s), h⟩
  | cons x xs ih =>
    intro s s' h
    cases h with
    | frame h1 hm h2 =>
      obtain ⟨s1, ha, hb⟩ := ih h2
      exact ⟨s1, .frame h1 hm ha, hb⟩

/-- cut a flagged frame list where the data list is cut -/
theorem map_snd_append {fs : List (Gap × Bytes)} {a b : List Bytes} (h : fs.map (·.2) = a ++ b) :
    ∃ fa fb, fs = fa ++ fb ∧ fa.map (·.2) = a ∧ fb.map (·.2) = b := by
  obtain ⟨fa, fb, h1, h2, h3⟩ := List.map_eq_append_iff.mp h
  exact ⟨fa, fb, h1, h2, h3⟩

theorem map_snd_cons {fs : List (Gap × Bytes)} {d : Bytes} {ds : List Bytes} (h : fs.map (·.2) = d :: ds) :
    ∃ f fs', fs = (f, d) :: fs' ∧ fs'.map (·.2) = ds := by
  cases fs with
  | nil => simp at h
  | cons x xs =>
    obtain ⟨f, d'⟩ := x
    simp only [List.map_cons, List.cons.injEq] at h
    obtain ⟨rfl, h2⟩ := h
    exact ⟨f, xs, rfl, h2⟩

theorem map_snd_nil {fs : List (Gap × Bytes)} (h : fs.map (·.2) = []) : fs = [] := by
  cases fs with
  | nil => rfl
  | cons x xs => simp at h

/-! ## B. bookkeeping: deliveries and reception errors between two states -/

def isErr : RxEv → Bool
  | .err _ => true
  | .deliver _ => false

/-- number of reception errors logged so far (`Ev.err` events of a reception class, see `Rx.rxEv`) -/
def errs (s : State) : Nat := (rxTrace s).countP isErr

/-- `errs` read directly from the event log -/
theorem errs_eq_log (s : State) :
    errs s = s.log.countP (fun e => match e with | .err _ c => isRxErr c | _ => false) := by
  unfold errs rxTrace
  rw [List.countP_filterMap, List.countP_reverse]
  congr 1
  funext e
  cases e <;> simp [rxEv, isErr]
  split <;> simp [*]

/-- between `s` and `s'` exactly the payloads `D` were delivered and at least `k` reception errors were logged -/
structure Adv (s s' : State) (D : List Bytes) (k : Nat) : Prop where
  del : delivered s' = delivered s ++ D
  err : errs s + k ≤ errs s'

theorem Adv.refl (s : State) : Adv s s [] 0 := ⟨by simp, by simp⟩

theorem Adv.trans {s s1 s2 : State} {D1 D2 : List Bytes} {k1 k2 : Nat} (h1 : Adv s s1 D1 k1) (h2 : Adv s1 s2 D2 k2) :
    Adv s s2 (D1 ++ D2) (k1 + k2) :=
  ⟨by rw [h2.del, h1.del, List.append_assoc], by have := h1.err; have := h2.err; omega⟩

theorem Adv.mono {s s' : State} {D : List Bytes} {k : Nat} (h : Adv s s' D k) (k' : Nat) (hk : k' ≤ k) :
    Adv s s' D k' := ⟨h.del, by have := h.err; omega⟩

theorem Adv.cast {s s' : State} {D D' : List Bytes} {k : Nat} (h : Adv s s' D k) (hD : D = D') : Adv s s' D' k :=
  hD ▸ h

theorem adv_of_trace {s s' : State} (E : List RxEv) (h : rxTrace s' = rxTrace s ++ E) :
    Adv s s' (E.filterMap RxEv.payload) (E.countP isErr) :=
  ⟨delivered_of_trace s s' E h, by unfold errs; rw [h, List.countP_append]; omega⟩

theorem adv_of_same {s s' : State} (h : RxSame s s') : Adv s s' [] 0 := by
  have := adv_of_trace (s := s) (s' := s') [] (by rw [h.trace]; simp)
  simpa using this

/-- the configuration and the address never change -/
structure Ctx (c0 : Cfg) (a0 : Addr) (s : State) : Prop where
  cfg  : s.cfg = c0
  addr : s.addr = a0

/-- receiver idle (state-only form of `Compose.IdleAt`) -/
abbrev IdleS (c0 : Cfg) (a0 : Addr) (s : State) : Prop := IdleAt c0 a0 (rxTrace s) s

/-- reception of `p` in progress with exactly the First Frame and the first `i` Consecutive Frames buffered
    (state-only form of `Rx.InSession`): "the buffer is a genuine prefix of a genuine message" -/
abbrev SessS (g : Spec.TxCfg) (c0 : Cfg) (a0 : Addr) (p : Bytes) (i : Nat) (s : State) : Prop :=
  InSession g c0 a0 (rxTrace s) p i s

theorem toIdleS {c0 a0 T s} (h : IdleAt c0 a0 T s) : IdleS c0 a0 s := ⟨h.idle, h.cfg, h.addr, rfl⟩
theorem toSessS {g c0 a0 T p i s} (h : InSession g c0 a0 T p i s) : SessS g c0 a0 p i s :=
  ⟨h.sess, h.cfg, h.addr, rfl⟩
theorem IdleS.ctx {c0 a0 s} (h : IdleS c0 a0 s) : Ctx c0 a0 s := ⟨h.cfg, h.addr⟩
theorem SessS.ctx {g c0 a0 p i s} (h : SessS g c0 a0 p i s) : Ctx c0 a0 s := ⟨h.cfg, h.addr⟩
theorem Ctx.idle {c0 a0 s} (h : Ctx c0 a0 s) (hi : s.rxState = .idle) : IdleS c0 a0 s := ⟨hi, h.cfg, h.addr, rfl⟩

/-! ## C. what a gap does -/

theorem rxTrace_stopReceiving (s : State) : rxTrace s.stopReceiving = rxTrace s := rxTrace_same _ _ rfl

/-- everything the theorems need to know about one environment step -/
structure GapFacts (s : State) (f : Gap) (s' : State) : Prop where
  cfg   : s'.cfg = s.cfg
  addr  : s'.addr = s.addr
  adv   : Adv s s' [] f.tmo
  same  : f.isQuiet = true → RxSame s s'
  idle  : (f.isQuiet = false ∨ s.rxState = .idle) → s'.rxState = .idle

theorem envStep_facts {s s' : State} {f : Gap} (h : EnvStep s f s') : GapFacts s f s' := by
  cases h with
  | same hs => exact ⟨hs.cfg, hs.addr, adv_of_same hs, fun _ => hs, fun h => by
      rcases h with h | h
      · simp [Gap.isQuiet] at h
      · rw [hs.rxState]; exact h⟩
  | check =>
    by_cases ht : s.timerCf.timedOut s.now = true
    · simp only [ht, if_true]
      rw [checkTimeoutsRx_expired s ht]
      refine ⟨rfl, rfl, ?_, fun h => by simp [Gap.isQuiet] at h, fun _ => rfl⟩
      have := adv_of_trace (s := s)
        (s' := { s with actualRxdl := none, rxState := .idle, rxBuf := [], pendingFc := false, lastFc := none,
                        timerCf := s.timerCf.stop, log := .err s.now .ConsecutiveFrameTimeout :: s.log })
        [.err .ConsecutiveFrameTimeout]
        (by rw [rxTrace_cons s _ (.err s.now .ConsecutiveFrameTimeout) rfl]; simp [rxEv, isRxErr])
      simpa [List.filterMap_cons, payload_err, isErr, Gap.tmo] using this
    · have ht' : s.timerCf.timedOut s.now = false := by simpa using ht
      have hs := rxSame_checkTimeoutsRx s ht'
      simp only [ht', Bool.false_eq_true, if_false]
      exact ⟨hs.cfg, hs.addr, adv_of_same hs, fun _ => hs, fun h => by
        rcases h with h | h
        · simp [Gap.isQuiet] at h
        · rw [hs.rxState]; exact h⟩
  | stop =>
    refine ⟨rfl, rfl, ?_, fun h => by simp [Gap.isQuiet] at h, fun _ => rfl⟩
    have := adv_of_trace (s := s) (s' := s.stopReceiving) [] (by rw [rxTrace_stopReceiving]; simp)
    simpa [Gap.tmo] using this
  | fc m st bs stm cdl rdl hd =>
    have hs : RxSame s (s.processRx m).1 := by
      rw [processRx_fc_eq s m st bs stm cdl rdl hd]
      exact rxView_congr _ _ rfl rfl rfl rfl rfl rfl rfl rfl rfl
    exact ⟨hs.cfg, hs.addr, adv_of_same hs, fun _ => hs, fun h => by
      rcases h with h | h
      · simp [Gap.isQuiet] at h
      · rw [hs.rxState]; exact h⟩
  | advance dt =>
    have hs := rxSame_advance s dt
    exact ⟨hs.cfg, hs.addr, adv_of_same hs, fun _ => hs, fun h => by
      rcases h with h | h
      · simp [Gap.isQuiet] at h
      · rw [hs.rxState]; exact h⟩
  | tx =>
    have hs := rxSame_processTx s
    exact ⟨hs.cfg, hs.addr, adv_of_same hs, fun _ => hs, fun h => by
      rcases h with h | h
      · simp [Gap.isQuiet] at h
      · rw [hs.rxState]; exact h⟩

theorem env_facts {s s' : State} {f : Gap} (h : Env s f s') : GapFacts s f s' := by
  induction h with
  | nil s => exact ⟨rfl, rfl, Adv.refl s, fun _ => RxSame.refl s, fun h => by
      rcases h with h | h
      · simp [Gap.isQuiet] at h
      · exact h⟩
  | @cons s s1 s' a b h1 _ ih =>
    have g1 := envStep_facts h1
    refine ⟨ih.cfg.trans g1.cfg, ih.addr.trans g1.addr, ?_, ?_, ?_⟩
    · have := (g1.adv.trans ih.adv).mono (a.join b).tmo (Gap.join_tmo a b).1
      simpa using this
    · intro hq
      obtain ⟨ha, hb⟩ := (Gap.join_quiet_iff a b).mp hq
      exact (g1.same ha).trans (ih.same hb)
    · intro hq
      apply ih.idle
      by_cases hb : b.isQuiet = true
      · right
        apply g1.idle
        rcases hq with hq | hq
        · left
          cases ha : a.isQuiet
          · rfl
          · have := (Gap.join_quiet_iff a b).mpr ⟨ha, hb⟩
            rw [this] at hq; cases hq
        · right; exact hq
      · left; simpa using hb

theorem Ctx.env {c0 a0 s s' f} (h : Ctx c0 a0 s) (he : Env s f s') : Ctx c0 a0 s' :=
  ⟨(env_facts he).cfg.trans h.cfg, (env_facts he).addr.trans h.addr⟩

theorem IdleS.env {c0 a0 s s' f} (h : IdleS c0 a0 s) (he : Env s f s') : IdleS c0 a0 s' :=
  (h.ctx.env he).idle ((env_facts he).idle (Or.inr h.idle))

theorem Ctx.env_abort {c0 a0 s s' f} (h : Ctx c0 a0 s) (he : Env s f s') (hf : f.isQuiet = false) : IdleS c0 a0 s' :=
  (h.env he).idle ((env_facts he).idle (Or.inl hf))

theorem SessS.env_quiet {g c0 a0 p i s s' f} (h : SessS g c0 a0 p i s) (he : Env s f s') (hf : f.isQuiet = true) :
    SessS g c0 a0 p i s' :=
  toSessS (InSession.of_same h ((env_facts he).same hf))

/-! ## D. one frame -/

section steps
variable {g : Spec.TxCfg} {c0 : Cfg} {a0 : Addr} {p : Bytes} {n : Nat}

/-- Consecutive Frame while idle: rejected, one error -/
theorem idle_cf {s : State} (h : IdleS c0 a0 s) (m : CanMsg) (pre X : Bytes) (j : Nat)
    (hpre : pre.length = a0.rx.rxPrefixSize) (hm : m.data = Spec.cfOf pre j X) :
    IdleS c0 a0 (s.processRx m).1 ∧ Adv s (s.processRx m).1 [] 1 := by
  have h2 := IdleAt.cf_step h m pre X j hpre hm
  exact ⟨toIdleS h2, by simpa [List.filterMap_cons, payload_err, payload_deliver, isErr] using adv_of_trace _ h2.trace⟩

/-- Consecutive Frame with another sequence number than the expected one: reception aborted, one error -/
theorem sess_wrong {s : State} {i : Nat} (h : SessS g c0 a0 p i s) (m : CanMsg) (X : Bytes) (j : Nat)
    (hpre : g.pre.length = a0.rx.rxPrefixSize) (hm : m.data = Spec.cfOf g.pre j X)
    (hne : (j + 1) % 16 ≠ (i + 1) % 16) :
    IdleS c0 a0 (s.processRx m).1 ∧ Adv s (s.processRx m).1 [] 1 := by
  have h2 := sess_wrong_step h m X j hpre hm hne
  exact ⟨toIdleS h2, by simpa [List.filterMap_cons, payload_err, payload_deliver, isErr] using adv_of_trace _ h2.trace⟩

/-- the last Consecutive Frame in sequence completes the message -/
theorem sess_last {s : State} (hg : Geom g c0 a0 p n) (pad : Bytes) (h : SessS g c0 a0 p n s) (m : CanMsg)
    (hm : m.data = cfFrame g p pad n n) :
    IdleS c0 a0 (s.processRx m).1 ∧ Adv s (s.processRx m).1 [p] 0 := by
  have h2 := sess_last_step h m pad hg.hpre (by rw [hm]; unfold cfFrame cfBody; rw [if_neg (Nat.lt_irrefl _)])
  exact ⟨toIdleS h2, by simpa [List.filterMap_cons, payload_err, payload_deliver, isErr] using adv_of_trace _ h2.trace⟩

/-- a full Consecutive Frame in sequence: the session advances -/
theorem sess_mid {s : State} {i : Nat} (hg : Geom g c0 a0 p n) (pad : Bytes) (h : SessS g c0 a0 p i s) (hi : i < n)
    (m : CanMsg) (hm : m.data = cfFrame g p pad n i) :
    SessS g c0 a0 p (i + 1) (s.processRx m).1 ∧ Adv s (s.processRx m).1 [] 0 := by
  have h2 := sess_mid_step h hg pad hi m hm
  exact ⟨toSessS h2, by simpa using adv_of_trace [] (by rw [h2.trace]; simp)⟩

/-- First Frame, from ANY state: a fresh session for `p`; one error if a reception was in progress -/
theorem any_ff {s : State} (hg : Geom g c0 a0 p n) (h : Ctx c0 a0 s) (m : CanMsg) (hm : m.data = ffFrame g p) :
    SessS g c0 a0 p 0 (s.processRx m).1 ∧ Adv s (s.processRx m).1 [] (if s.rxState = .idle then 0 else 1) := by
  have hseg : Spec.ffRoom (Spec.streamCfg g.txDl g.pre) p.length < p.length := by
    have := hg.more
    show Spec.ffRoom g p.length < p.length
    omega
  have hpre : g.pre.length = s.addr.rx.rxPrefixSize := by rw [h.addr]; exact hg.hpre
  have hmax : p.length ≤ s.cfg.maxFrameSize := by rw [h.cfg]; exact hg.hmax
  have heq := ff_step_eq s m g.txDl g.pre p hpre hg.txDl hg.len hseg hmax hm
  refine ⟨⟨rxSession_stream (ff_starts_session s m g.txDl g.pre p hpre hg.txDl hg.len hseg hmax hm), ?_, ?_, rfl⟩, ?_⟩
  · rw [heq]; exact h.cfg
  · rw [heq]; exact h.addr
  · by_cases hi : s.rxState = .idle
    · simp only [hi, if_true]
      have : rxTrace (s.processRx m).1 = rxTrace s ++ [] := by
        rw [heq]; simp only [hi, if_true, List.append_nil]; exact rxTrace_same _ _ rfl
      simpa using adv_of_trace [] this
    · simp only [hi, if_false]
      have : rxTrace (s.processRx m).1 = rxTrace s ++ [.err .InterruptedWithFirstFrame] := by
        rw [heq]; simp only [hi, if_false]
        rw [rxTrace_cons s _ (.err s.now .InterruptedWithFirstFrame) rfl]
        simp [rxEv, isRxErr]
      simpa [List.filterMap_cons, payload_err, payload_deliver, isErr] using adv_of_trace _ this

/-- Single Frame, from ANY state: delivered at once; one error if a reception was in progress -/
theorem any_sf {s : State} (h : Ctx c0 a0 s) (m : CanMsg) (pre d : Bytes) (esc : Bool) (cdl rdl : Nat)
    (hpre : pre.length = a0.rx.rxPrefixSize) (hm : m.data = d)
    (hd : decode d pre.length = some ⟨.sf p.length p esc, cdl, rdl⟩) (h8 : cdl ≤ 8 ∨ esc = true) :
    IdleS c0 a0 (s.processRx m).1 ∧ Adv s (s.processRx m).1 [p] (if s.rxState = .idle then 0 else 1) := by
  have hd1 : decode m.data s.addr.rx.rxPrefixSize = some ⟨.sf p.length p esc, cdl, rdl⟩ := by
    rw [hm, h.addr, ← hpre]; exact hd
  obtain ⟨ht, hst, _⟩ := sf_delivers s m _ _ _ _ _ hd1 h8
  obtain ⟨hc, ha⟩ := processRx_cfg_addr s m
  refine ⟨⟨hst, hc.trans h.cfg, ha.trans h.addr, rfl⟩, ?_⟩
  rw [List.append_assoc] at ht
  have := adv_of_trace _ ht
  by_cases hi : s.rxState = .idle
  · simpa [hi, List.filterMap_cons, payload_err, payload_deliver, isErr] using this
  · simpa [hi, List.filterMap_cons, payload_err, payload_deliver, isErr] using this

end steps

/-! ## E. runs of Consecutive Frames, any gaps -/

/-- all gaps quiet -/
def quietAll (fs : List (Gap × Bytes)) : Bool := fs.all (fun x => x.1.isQuiet)

/-- number of gaps in which a timeout fired -/
def tcount (fs : List (Gap × Bytes)) : Nat := (fs.map (fun x => x.1.tmo)).sum

/-- some gap contains a `stop_receiving()` (and no timeout) -/
def hasStop (fs : List (Gap × Bytes)) : Bool := fs.any (fun x => x.1.isStop)

@[simp] theorem quietAll_nil : quietAll [] = true := rfl
@[simp] theorem quietAll_cons (f : Gap) (d : Bytes) (fs : List (Gap × Bytes)) :
    quietAll ((f, d) :: fs) = (f.isQuiet && quietAll fs) := by simp [quietAll]
theorem quietAll_append (a b : List (Gap × Bytes)) : quietAll (a ++ b) = (quietAll a && quietAll b) := by
  simp [quietAll]
@[simp] theorem tcount_nil : tcount [] = 0 := rfl
@[simp] theorem tcount_cons (f : Gap) (d : Bytes) (fs : List (Gap × Bytes)) :
    tcount ((f, d) :: fs) = f.tmo + tcount fs := by simp [tcount]
theorem tcount_append (a b : List (Gap × Bytes)) : tcount (a ++ b) = tcount a + tcount b := by
  simp [tcount]
@[simp] theorem hasStop_nil : hasStop [] = false := rfl
@[simp] theorem hasStop_cons (f : Gap) (d : Bytes) (fs : List (Gap × Bytes)) :
    hasStop ((f, d) :: fs) = (f.isStop || hasStop fs) := by simp [hasStop]
theorem hasStop_append (a b : List (Gap × Bytes)) : hasStop (a ++ b) = (hasStop a || hasStop b) := by
  simp [hasStop]

/-- a gap that is not quiet is a timeout (counted) or a silent stop -/
theorem not_quiet_cases (fs : List (Gap × Bytes)) (bl : Gap) (h : (quietAll fs && bl.isQuiet) = false) :
    1 ≤ tcount fs + bl.tmo ∨ (hasStop fs || bl.isStop) = true := by
  induction fs with
  | nil =>
    simp only [quietAll_nil, Bool.true_and] at h
    rcases Gap.cases3 bl with hq | hs | ht
    · rw [hq] at h; cases h
    · right; simp [hs]
    · left; omega
  | cons x xs ih =>
    obtain ⟨f, d⟩ := x
    simp only [tcount_cons, hasStop_cons]
    rcases Gap.cases3 f with hq | hs | ht
    · simp only [quietAll_cons, hq, Bool.true_and] at h
      rcases ih h with h1 | h1
      · left; omega
      · right; simp only [Bool.or_eq_true] at h1 ⊢; rcases h1 with h1 | h1
        · exact Or.inl (Or.inr h1)
        · exact Or.inr h1
    · right; simp [hs]
    · left; omega

section runs
variable {g : Spec.TxCfg} {c0 : Cfg} {a0 : Addr} {p : Bytes} {n : Nat}

/-- "poisoned but harmless": any number of Consecutive Frames while idle, any gaps: all rejected, still idle -/
theorem run_idle_a (pre : Bytes) (hpre : pre.length = a0.rx.rxPrefixSize) :
    ∀ (fs : List (Gap × Bytes)), (∀ x ∈ fs, ∃ j X, x.2 = Spec.cfOf pre j X) → ∀ (bl : Gap) (s s' : State),
    IdleS c0 a0 s → FeedsA s fs bl s' →
    IdleS c0 a0 s' ∧ Adv s s' [] (fs.length + tcount fs + bl.tmo) := by
  intro fs
  induction fs with
  | nil =>
    intro _ bl s s' h hf
    cases hf with
    | done he => exact ⟨h.env he, by simpa using (env_facts he).adv⟩
  | cons x xs ih =>
    intro hall bl s s' h hf
    cases hf with
    | frame he hm hrest =>
      rename_i s1 m f d
      obtain ⟨j, X, hd⟩ := hall (f, d) List.mem_cons_self
      obtain ⟨h2, a2⟩ := idle_cf (h.env he) m pre X j hpre (hm.trans hd)
      obtain ⟨h3, a3⟩ := ih (fun e he => hall e (List.mem_cons_of_mem _ he)) bl _ s' h2 hrest
      refine ⟨h3, ?_⟩
      have := ((env_facts he).adv.trans a2).trans a3
      simp only [List.append_nil, List.length_cons, tcount_cons] at this ⊢
      exact this.mono _ (by omega)

theorem cfs_of_map {pre : Bytes} {cs : List (Gap × Bytes)} {l : List Bytes} (h : cs.map (·.2) = l)
    (hl : ∀ d ∈ l, ∃ j X, d = Spec.cfOf pre j X) : ∀ x ∈ cs, ∃ j X, x.2 = Spec.cfOf pre j X := by
  intro x hx
  apply hl
  rw [← h]
  exact List.mem_map_of_mem hx

theorem mem_cfList_sub (g : Spec.TxCfg) (p pad : Bytes) (n j m : Nat) (d : Bytes)
    (h : d ∈ ((cfList g p pad n).drop j).take m) : ∃ i X, d = Spec.cfOf g.pre i X :=
  mem_cfList g p pad n d (List.mem_of_mem_drop (List.mem_of_mem_take h))

/-- `m` Consecutive Frames in sequence from index `j0`, none of them the last one: the session advances as long
    as every gap is quiet; after the first abort everything is rejected. Nothing is delivered. -/
theorem run_take (hg : Geom g c0 a0 p n) (pad : Bytes) : ∀ (m j0 : Nat), j0 + m ≤ n → ∀ (cs : List (Gap × Bytes)),
    cs.map (·.2) = ((cfList g p pad n).drop j0).take m → ∀ (bl : Gap) (s s' : State),
    SessS g c0 a0 p j0 s → FeedsA s cs bl s' →
    (if (quietAll cs && bl.isQuiet) = true then SessS g c0 a0 p (j0 + m) s' else IdleS c0 a0 s') ∧
      Adv s s' [] (tcount cs + bl.tmo) := by
  intro m
  induction m with
  | zero =>
    intro j0 _ cs hcs bl s s' h hf
    simp only [List.take_zero] at hcs
    have := map_snd_nil hcs
    subst this
    cases hf with
    | done he =>
      refine ⟨?_, by simpa using (env_facts he).adv⟩
      cases hq : bl.isQuiet
      · simpa using h.ctx.env_abort he hq
      · simpa using h.env_quiet he hq
  | succ m ih =>
    intro j0 hj cs hcs bl s s' h hf
    rw [cfList_drop g p pad n j0 (by omega), List.take_succ_cons] at hcs
    obtain ⟨f, cs', rfl, hcs'⟩ := map_snd_cons hcs
    cases hf with
    | frame he hm hrest =>
      rename_i s1 mm
      cases hq : f.isQuiet
      · -- aborted before this frame: idle, everything else is rejected
        have h1 := h.ctx.env_abort he hq
        obtain ⟨h2, a2⟩ := idle_cf h1 mm g.pre _ j0 hg.hpre (hm.trans rfl)
        obtain ⟨h3, a3⟩ := run_idle_a (c0 := c0) g.pre hg.hpre cs'
          (cfs_of_map hcs' (fun d hd => mem_cfList_sub g p pad n _ _ d hd)) bl _ s' h2 hrest
        refine ⟨by simpa [hq] using h3, ?_⟩
        have := ((env_facts he).adv.trans a2).trans a3
        simp only [List.append_nil, tcount_cons] at this ⊢
        exact this.mono _ (by omega)
      · have h1 := h.env_quiet he hq
        obtain ⟨h2, a2⟩ := sess_mid hg pad h1 (by omega) mm hm
        obtain ⟨h3, a3⟩ := ih (j0 + 1) (by omega) cs' hcs' bl _ s' h2 hrest
        refine ⟨?_, ?_⟩
        · simp only [quietAll_cons, hq, Bool.true_and]
          rw [show j0 + (m + 1) = j0 + 1 + m by omega]
          exact h3
        · have := ((env_facts he).adv.trans a2).trans a3
          simp only [List.append_nil, tcount_cons] at this ⊢
          exact this.mono _ (by omega)

theorem cfList_drop_split (g : Spec.TxCfg) (p pad : Bytes) (n j : Nat) (hj : j ≤ n) :
    (cfList g p pad n).drop j = ((cfList g p pad n).drop j).take (n - j) ++ [cfFrame g p pad n n] := by
  conv => lhs; rw [← List.take_append_drop (n - j) ((cfList g p pad n).drop j)]
  rw [List.drop_drop, show j + (n - j) = n by omega, cfList_drop g p pad n n (Nat.le_refl _),
    List.drop_eq_nil_of_le (as := cfList g p pad n) (i := n + 1) (by rw [length_cfList]; omega)]

/-- all the remaining Consecutive Frames of the message, from index `j`: the message is delivered iff every gap
    is quiet; the receiver is idle afterwards in any case. -/
theorem run_cfs (hg : Geom g c0 a0 p n) (pad : Bytes) (j : Nat) (hj : j ≤ n) (cs : List (Gap × Bytes))
    (hcs : cs.map (·.2) = (cfList g p pad n).drop j) (bl : Gap) (s s' : State)
    (h : SessS g c0 a0 p j s) (hf : FeedsA s cs bl s') :
    IdleS c0 a0 s' ∧ Adv s s' (if quietAll cs = true then [p] else []) 0 := by
  rw [cfList_drop_split g p pad n j hj] at hcs
  obtain ⟨c1, c2, rfl, hc1, hc2⟩ := map_snd_append hcs
  obtain ⟨fl, c2', rfl, hc2'⟩ := map_snd_cons hc2
  have := map_snd_nil hc2'
  subst this
  obtain ⟨s1, hf1, hf2⟩ := hf.split
  obtain ⟨h1, a1⟩ := run_take hg pad (n - j) j (by omega) c1 hc1 .quiet s s1 h hf1
  rw [show j + (n - j) = n by omega] at h1
  cases hf2 with
  | frame he hm hend =>
    rename_i s2 mm
    cases hend with
    | done he2 =>
      simp only [quietAll_append, quietAll_cons, quietAll_nil, Bool.and_true]
      by_cases hq : (quietAll c1 && fl.isQuiet) = true
      · simp only [Bool.and_eq_true] at hq
        simp only [hq.1, Gap.isQuiet, Bool.and_self, if_true] at h1
        obtain ⟨h3, a3⟩ := sess_last hg pad (h1.env_quiet he hq.2) mm hm
        refine ⟨h3.env he2, ?_⟩
        have := ((a1.trans (env_facts he).adv).trans a3).trans (env_facts he2).adv
        simp only [hq.1, hq.2, Bool.and_self, if_true]
        simpa using this.mono 0 (by omega)
      · have hidle : IdleS c0 a0 s2 := by
          cases hq1 : quietAll c1
          · simp only [hq1, Bool.false_and, Bool.false_eq_true, if_false] at h1
            exact h1.env he
          · simp only [hq1, Gap.isQuiet, Bool.and_self, if_true] at h1
            have : fl.isQuiet = false := by
              cases hfl : fl.isQuiet
              · rfl
              · exact absurd (by simp [hq1, hfl]) hq
            exact h1.ctx.env_abort he this
        obtain ⟨h3, a3⟩ := idle_cf hidle mm g.pre _ n hg.hpre (hm.trans rfl)
        refine ⟨h3.env he2, ?_⟩
        have := ((a1.trans (env_facts he).adv).trans a3).trans (env_facts he2).adv
        have hq' : (quietAll c1 && fl.isQuiet) = false := by simpa using hq
        simp only [hq', Bool.false_eq_true, if_false]
        simpa using this.mono 0 (by omega)

end runs

/-! ## F. a message that is not hit by the fault, from ANY state -/

/-- the flags of the gaps after the first frame of the message -/
def innerQuiet (fs : List (Gap × Bytes)) : Bool := quietAll fs.tail

/-- reception errors caused by the first frame of a message: a timeout firing in the gap before it, and the
    interruption error when it arrives (gap quiet) while a reception is in progress -/
def firstErr (s : State) : List (Gap × Bytes) → Nat
  | [] => 0
  | (f, _) :: _ => f.tmo + (if f.isQuiet = true ∧ s.rxState = .waitCf then 1 else 0)

theorem firstErr_le {s s1 : State} {f : Gap} (he : Env s f s1) :
    f.tmo + (if f.isQuiet = true ∧ s.rxState = .waitCf then 1 else 0) ≤
      f.tmo + (if s1.rxState = .idle then 0 else 1) := by
  by_cases hc : f.isQuiet = true ∧ s.rxState = .waitCf
  · have : s1.rxState = .waitCf := by rw [((env_facts he).same hc.1).rxState]; exact hc.2
    simp [hc, this]
  · simp only [hc, if_false]; omega

/-- Any well-formed message, from ANY receiver state, arbitrary gaps: the payload is delivered, intact and exactly
    once, iff no abort step occurs after its first frame (a Single Frame message: always); nothing else is
    delivered; the receiver is idle afterwards. -/
theorem msg_ok (pre p : Bytes) (fr : List Bytes) (c0 : Cfg) (a0 : Addr) (hw : Spec.WellFormed pre p fr)
    (hpre : pre.length = a0.rx.rxPrefixSize) (hmax : p.length ≤ c0.maxFrameSize) (fs : List (Gap × Bytes))
    (hfs : fs.map (·.2) = fr) (bl : Gap) (s s' : State) (h : Ctx c0 a0 s) (hf : FeedsA s fs bl s') :
    IdleS c0 a0 s' ∧ Adv s s' (if innerQuiet fs = true then [p] else []) (firstErr s fs) := by
  rcases wellFormed_cases pre p fr c0 a0 hw hpre hmax with ⟨d, esc, cdl, rdl, rfl, hd, h8⟩ | ⟨g, n, pad, _, hg, rfl⟩
  · obtain ⟨f, fs', rfl, hfs'⟩ := map_snd_cons hfs
    have := map_snd_nil hfs'
    subst this
    cases hf with
    | frame he hm hend =>
      cases hend with
      | done he2 =>
        obtain ⟨h2, a2⟩ := any_sf (h.env he) _ pre d esc cdl rdl hpre hm hd h8
        refine ⟨h2.env he2, ?_⟩
        have := ((env_facts he).adv.trans a2).trans (env_facts he2).adv
        have hle := firstErr_le he
        exact (this.mono (firstErr s [(f, d)]) (by simp only [firstErr]; omega)).cast (by simp [innerQuiet])
  · unfold segFrames at hfs
    obtain ⟨f, cs, rfl, hcs⟩ := map_snd_cons hfs
    cases hf with
    | frame he hm hrest =>
      obtain ⟨h2, a2⟩ := any_ff hg (h.env he) _ hm
      obtain ⟨h3, a3⟩ := run_cfs hg pad 0 (Nat.zero_le _) cs (by rw [List.drop_zero]; exact hcs) bl _ s' h2 hrest
      refine ⟨h3, ?_⟩
      have e : innerQuiet ((f, ffFrame g p) :: cs) = quietAll cs := rfl
      rw [e]
      have := ((env_facts he).adv.trans a2).trans a3
      have hle := firstErr_le he
      exact (this.mono (firstErr s ((f, ffFrame g p) :: cs)) (by simp only [firstErr]; omega)).cast (by simp)

/-! ## G. several messages in a row, none of them hit -/

/-- From ANY state: what is delivered is a subsequence of the messages (each intact, at most once, in order); the
    receiver is idle after the last one. -/
theorem msgs_ok (pre : Bytes) (enc : Bytes → List Bytes) (c0 : Cfg) (a0 : Addr)
    (hpre : pre.length = a0.rx.rxPrefixSize) : ∀ (ps : List Bytes),
    (∀ p ∈ ps, Spec.WellFormed pre p (enc p)) → (∀ p ∈ ps, p.length ≤ c0.maxFrameSize) →
    ∀ (fs : List (Gap × Bytes)), fs.map (·.2) = stream enc ps → ∀ (bl : Gap) (s s' : State),
    Ctx c0 a0 s → FeedsA s fs bl s' →
    ∃ L, L.Sublist ps ∧ Adv s s' L 0 ∧ Ctx c0 a0 s' ∧ ((ps ≠ [] ∨ s.rxState = .idle) → s'.rxState = .idle) := by
  intro ps
  induction ps with
  | nil =>
    intro _ _ fs hfs bl s s' h hf
    have := map_snd_nil (by simpa using hfs)
    subst this
    cases hf with
    | done he =>
      refine ⟨[], List.Sublist.refl _, (env_facts he).adv.mono 0 (by omega), h.env he, fun hi => ?_⟩
      rcases hi with hi | hi
      · exact absurd rfl hi
      · exact (env_facts he).idle (Or.inr hi)
  | cons p ps ih =>
    intro hwf hmax fs hfs bl s s' h hf
    rw [stream_cons] at hfs
    obtain ⟨fp, fr, rfl, hfp, hfr⟩ := map_snd_append hfs
    obtain ⟨s1, hf1, hf2⟩ := hf.split
    obtain ⟨h1, a1⟩ := msg_ok pre p (enc p) c0 a0 (hwf p List.mem_cons_self) hpre (hmax p List.mem_cons_self) fp hfp
      .quiet s s1 h hf1
    obtain ⟨L, hL, a2, h2, hi2⟩ := ih (fun q hq => hwf q (List.mem_cons_of_mem _ hq))
      (fun q hq => hmax q (List.mem_cons_of_mem _ hq)) fr hfr bl s1 s' h1.ctx hf2
    refine ⟨_, ?_, (a1.trans a2).mono 0 (by omega), h2, fun _ => hi2 (Or.inr h1.idle)⟩
    have : ((if innerQuiet fp = true then [p] else []) : List Bytes).Sublist [p] := by
      split
      · exact List.Sublist.refl _
      · exact List.nil_sublist _
    exact List.Sublist.append this hL

end Isotp.RxAbort
