import Isotp.PyAgree.EvalLemmas
import Isotp.PyAgree.Exec2Bridge
import Isotp.Params
/-!
  `TransportLayerLogic.Params.validate / __init__ / set / _fits_float` (interpreted source, `Src.TransportLayerLogic_Params_*`)
  against the model `validateParams` (Isotp/Params.lean), for EVERY `p : ParamArgs` (wrong types, `None`, bools, negative ints,
  floats, nan / inf included).

  `validate` contains two `try ... except OverflowError` (`tryCatch`), so its meaning is given by the second semantics
  (`run2` / `exec2B` of Isotp/Py/Exec2.lean, fuel `n ≥ 51`); every statement without a `tryCatch` is proved in the first semantics
  (`execStmt`) and carried over with the bridge theorems of Exec2Bridge.lean.  The dumper renders `a * b` / `a / b` of these functions
  as the calls `__mul__` / `__truediv__` (the interpreter's own `*` is integer-only), so float arithmetic is a callee (`paramsMeths`).

  Results (§7-§10):
  * `params_validate_agrees` (`_env`, `_iff`): `validate()` returns `None` iff `validateParams p && extraOk p F x`, raises `ValueError`
    otherwise; `extraOk` = the checks the model has no term for (`_fits_float` of the two timeouts, `logger_name`, `wait_func`).
    Hypothesis `Coherent p F`: the model's float facts (`prod`, `ovrScaledFinite`) are the ones Python computes.
    `finalEnvOf_unchanged / _override / _tat`: the object is unchanged except `override_receiver_stmin := float(...)`,
    `default_target_address_type := TargetAddressType(...)`.
  * `fits_disagreement`: the one place where `validateParams` and the source differ on the RAW value (a timeout too large for a float;
    the harness hands such a value over as `+inf`, where they agree again).
  * `params_init_defaults`, `params_init_then_validate`; `params_set_agrees`; `fits_float_exec`.
-/
set_option linter.unusedSimpArgs false
namespace Isotp.PyAgree.Params
open Isotp Isotp.Py

/-! ## 1. How a `Params` object looks to the interpreter -/

/-- a Python value of the model, as a value of the interpreter -/
abbrev pv (v : PyVal) : PV := .sc (.py v)

def tatPhys : PV := .sc (.enum "TargetAddressType" "Physical")
def tatFunc : PV := .sc (.enum "TargetAddressType" "Functional")
/-- `isotp.TargetAddressType(i)` for `i ∈ {0, 1}` -/
def tatOfInt (i : Int) : PV := if i = 0 then tatPhys else tatFunc

/-- The attributes of a `Params` object that `ParamArgs` has no field for, and how `default_target_address_type` is held. -/
structure Extra where
  /-- `false`: the attribute `default_target_address_type` holds the raw Python value `p.defaultTat` (what `set()` stored);
      `true`: it holds the `TargetAddressType` MEMBER whose value is `p.defaultTat` (what `__init__` stores, and what `validate`
      leaves behind); `ParamArgs` presents a member by its integer value (its default `.int 0` stands for `Physical`). -/
  tatAsMember : Bool := false
  /-- `self.logger_name` -/
  logger : PV := .str "isotp"
  /-- `self.wait_func` -/
  waitFunc : PV := .meth "time.sleep"

def tatPres (p : ParamArgs) (x : Extra) : PV :=
  if x.tatAsMember then tatOfInt p.defaultTat.intVal else pv p.defaultTat

/-- the object (`self.*`) and the two module constants the body reads -/
def paramsEnv (p : ParamArgs) (x : Extra) : Env := fun k =>
  match k with
  | "self.stmin" => some (pv p.stmin)
  | "self.blocksize" => some (pv p.blocksize)
  | "self.override_receiver_stmin" => some (pv p.overrideStmin)
  | "self.rx_flowcontrol_timeout" => some (pv p.tFc)
  | "self.rx_consecutive_frame_timeout" => some (pv p.tCf)
  | "self.tx_padding" => some (pv p.txPadding)
  | "self.wftmax" => some (pv p.wftmax)
  | "self.tx_data_length" => some (pv p.txDl)
  | "self.tx_data_min_length" => some (pv p.txMinLen)
  | "self.max_frame_size" => some (pv p.maxFrameSize)
  | "self.can_fd" => some (pv p.canFd)
  | "self.bitrate_switch" => some (pv p.brs)
  | "self.default_target_address_type" => some (tatPres p x)
  | "self.rate_limit_max_bitrate" => some (pv p.rlBitrate)
  | "self.rate_limit_window_size" => some (pv p.rlWindow)
  | "self.rate_limit_enable" => some (pv p.rlEnable)
  | "self.listen_mode" => some (pv p.listen)
  | "self.blocking_send" => some (pv p.blocking)
  | "self.logger_name" => some x.logger
  | "self.wait_func" => some x.waitFunc
  | "isotp.address.TargetAddressType.Physical" => some tatPhys
  | "isotp.address.TargetAddressType.Functional" => some tatFunc
  | _ => none

/-! ## 2. The primitives the source calls -/

/-- What Python computes and the model does not: -/
structure Facts where
  /-- `Params._fits_float(i)` for an `int` `i` (`math.isfinite(float(i) / 1000 * 1e9)`, `False` on `OverflowError`) -/
  fits : Int → Bool
  /-- the `int` `i` is too large to be converted to a float: `float(i)`, `math.isfinite(i)` and `i * <float>` raise `OverflowError`
      (CPython: `|i| ≥ 2**1024 - 2**970`) -/
  big : Int → Bool
  /-- `none`: `self.wait_func(0.001)` returns; `some e`: it raises the exception `e` -/
  waitExc : Option PyExc := none

/-- the float literal `1e9` (exact) -/
def lit1e9 : PyVal := .float 1000000000 1

/-- `float(v)` -/
def pyFloat (F : Facts) : PyVal → Except PErr PV
  | .int i => if F.big i then .error (.exc .OverflowError) else .ok (pv (.float i 1))
  | .bool b => .ok (pv (.float (if b then 1 else 0) 1))
  | .float n d => .ok (pv (.float n d))
  | .nan => .ok (pv .nan)
  | .posInf => .ok (pv .posInf)
  | .negInf => .ok (pv .negInf)
  | _ => .error (.exc .TypeError)

/-- `math.isfinite(v)` -/
def pyIsFinite (F : Facts) : PyVal → Except PErr PV
  | .int i => if F.big i then .error (.exc .OverflowError) else .ok (pbool true)
  | .bool _ => .ok (pbool true)
  | .float _ _ => .ok (pbool true)
  | .nan => .ok (pbool false)
  | .posInf => .ok (pbool false)
  | .negInf => .ok (pbool false)
  | _ => .error (.exc .TypeError)

/-- `x * 1e9` for a float `x` -/
def scaled (p : ParamArgs) : PyVal → PyVal
  | .float n d => if p.ovrScaledFinite then .float (n * 1000000000) d else if n < 0 then .negInf else .posInf
  | v => v

/-- `a * b` -/
def pyMul (p : ParamArgs) (F : Facts) (a b : PyVal) : Except PErr PV :=
  if a.isInt && b.isInt then .ok (pint (a.intVal * b.intVal))
  else if a.isFloat && b == lit1e9 then .ok (pv (scaled p a))
  else if a.isInt && b.isFloat && a == p.rlBitrate && b == p.rlWindow then
    (if F.big a.intVal then .error (.exc .OverflowError) else .ok (pv p.prod))
  else .error (.unsupported "__mul__: a float product the model has no fact for")

def pyFloatLit : String → Except PErr PV
  | "1000000000.0" => .ok (pv lit1e9)
  | "0.001" => .ok (pv (.float 1 1000))
  | "0.2" => .ok (pv (.float 1 5))
  | _ => .error (.unsupported "float literal")

def isStrPV : PV → Bool
  | .str _ => true
  | .sc (.py (.str _)) => true
  | _ => false
def isTatPV : PV → Bool
  | .sc (.enum "TargetAddressType" _) => true
  | _ => false
def isCallablePV : PV → Bool
  | .meth _ => true
  | _ => false

/-- `isotp.TargetAddressType(v)` -/
def pyTat (v : PyVal) : Except PErr PV :=
  if v.isInt && v.intVal == 0 then .ok tatPhys
  else if v.isInt && v.intVal == 1 then .ok tatFunc
  else .error (.exc .ValueError)

/-- **The callees of `Params.validate`, and exactly what each is assumed to do.**
  (`isinstance_int`, `isinstance_bool`, `isinstance_float`, `isinstance_int_float` are builtins of the interpreter
  (`evalBuiltin`, Ast.lean), not assumptions of this file: `isinstance(v, int)` is true for `int` AND `bool` values, as in Python,
  `isinstance(v, bool)` for `bool` only, `isinstance(v, float)` for finite floats, nan, ±inf, `isinstance(v, (int, float))` for all of these.)

  * `float(v)` (`pyFloat`): an `int` `i` gives the float presented as the rational `i/1` (Python rounds `i` to 53 bits; `validate`
    only reads the sign of the result and hands it to `* 1e9`), or raises `OverflowError` when `F.big i`; a `bool` gives `0.0` / `1.0`;
    a float (finite, nan, ±inf) is returned unchanged; anything else raises `TypeError`.
  * `math.isfinite(v)` (`pyIsFinite`): `True` for `bool`, finite floats and `int`s that are not `F.big`; `OverflowError` for an `int` that is
    `F.big`; `False` for nan, ±inf; `TypeError` for a non-number.
  * `__mul__(a, b)`, i.e. `a * b` (`pyMul`):
      - both `int` / `bool`: the exact integer product (the same as the interpreter's own `*`);
      - `a` a float and `b` the literal `1e9`: nan, ±inf are returned unchanged (IEEE), a finite `a = n/d` gives a finite float
        (presented as `n*10^9/d`; only `math.isfinite` is applied to it) if `p.ovrScaledFinite`, an infinity otherwise:
        THE MODEL'S FACT `ovrScaledFinite = math.isfinite(override_receiver_stmin * 1e9)`;
      - `a = rate_limit_max_bitrate` an `int` and `b = rate_limit_window_size` a float: `OverflowError` if `F.big a`, else `p.prod`:
        THE MODEL'S FACT `prod = rate_limit_max_bitrate * rate_limit_window_size`;
      - any other product with a float operand: outside the subset (interpreter error; `validate` evaluates none).
  * `__float__(s)`: the float literal `s`: `"1000000000.0"` is the float `10^9` (exact); `"0.2"` is presented as the model's default
    `rate_limit_window_size = .float 1 5` (the exact binary double is `3602879701896397 / 2^54`; `validate` reads only its sign, and its
    product with the bitrate through `p.prod`); `"0.001"` as `1/1000` (only handed to `wait_func`).
  * `self._fits_float(v)`: `F.fits i` for an `int` / `bool` of value `i` (`TypeError` otherwise; never called on a non-int).
  * `isinstance_str(v)`: `v` is a string; `isinstance_TargetAddressType(v)`: `v` is a member of `TargetAddressType`;
    `callable(v)`: `v` is a function / bound method (`PV.meth`).
  * `isotp.TargetAddressType(v)` (`pyTat`): the member of value `v` for an `int` / `bool` equal to `0` / `1`, `ValueError` otherwise.
  * `self.wait_func(0.001)` (a statement): returns without touching the `Params` object when `F.waitExc = none`,
    raises the exception `e` when `F.waitExc = some e` (only classes derived from `Exception`: `PyExc` has no other).
  * `__caught__()`: the exception object bound by `except Exception as e` (opaque). -/
def paramsMeths (p : ParamArgs) (F : Facts) : Meths where
  fn name args _ :=
    match name, args with
    | "float", [.sc (.py v)] => pyFloat F v
    | "math.isfinite", [.sc (.py v)] => pyIsFinite F v
    | "__mul__", [.sc (.py a), .sc (.py b)] => pyMul p F a b
    | "__float__", [.str s] => pyFloatLit s
    | "self._fits_float", [.sc (.py v)] => if v.isInt then .ok (pbool (F.fits v.intVal)) else .error (.exc .TypeError)
    | "isinstance_str", [v] => .ok (pbool (isStrPV v))
    | "isinstance_TargetAddressType", [v] => .ok (pbool (isTatPV v))
    | "callable", [v] => .ok (pbool (isCallablePV v))
    | "isotp.TargetAddressType", [.sc (.py v)] => pyTat v
    | "__caught__", [] => .ok (.meth "exception")
    | _, _ => .error (.unsupported ("call " ++ name))
  proc name args env :=
    match name, args with
    | "self.wait_func", [_] => (match F.waitExc with | none => .ok env | some e => .error (.exc e))
    | _, _ => .error (.unsupported ("call " ++ name))

section methLemmas
variable (p : ParamArgs) (F : Facts) (env : Env)
theorem M_float (v : PyVal) : (paramsMeths p F).fn "float" [pv v] env = pyFloat F v := rfl
theorem M_isfinite (v : PyVal) : (paramsMeths p F).fn "math.isfinite" [pv v] env = pyIsFinite F v := rfl
theorem M_mul (a b : PyVal) : (paramsMeths p F).fn "__mul__" [pv a, pv b] env = pyMul p F a b := rfl
theorem M_mul_pint (a : PyVal) (k : Int) : (paramsMeths p F).fn "__mul__" [pv a, pint k] env = pyMul p F a (.int k) := rfl
theorem M_lit (s : String) : (paramsMeths p F).fn "__float__" [.str s] env = pyFloatLit s := rfl
theorem M_fits (v : PyVal) : (paramsMeths p F).fn "self._fits_float" [pv v] env =
    if v.isInt then .ok (pbool (F.fits v.intVal)) else .error (.exc .TypeError) := rfl
theorem M_isStr (v : PV) : (paramsMeths p F).fn "isinstance_str" [v] env = .ok (pbool (isStrPV v)) := rfl
theorem M_isTat (v : PV) : (paramsMeths p F).fn "isinstance_TargetAddressType" [v] env = .ok (pbool (isTatPV v)) := rfl
theorem M_callable (v : PV) : (paramsMeths p F).fn "callable" [v] env = .ok (pbool (isCallablePV v)) := rfl
theorem M_tat (v : PyVal) : (paramsMeths p F).fn "isotp.TargetAddressType" [pv v] env = pyTat v := rfl
theorem M_caught : (paramsMeths p F).fn "__caught__" [] env = .ok (.meth "exception") := rfl
theorem M_wait (v : PV) : (paramsMeths p F).proc "self.wait_func" [v] env =
    (match F.waitExc with | none => .ok env | some e => .error (.exc e)) := rfl
theorem lit_1e9 : pyFloatLit "1000000000.0" = .ok (pv lit1e9) := rfl
theorem lit_001 : pyFloatLit "0.001" = .ok (pv (.float 1 1000)) := rfl
theorem lit_02 : pyFloatLit "0.2" = .ok (pv (.float 1 5)) := rfl
end methLemmas

/-- the names that are not builtins of the interpreter go to `Meths` -/
theorem nb_float (a : List PV) : evalBuiltin "float" a = none := by unfold evalBuiltin; split <;> simp_all
theorem nb_isfinite (a : List PV) : evalBuiltin "math.isfinite" a = none := by unfold evalBuiltin; split <;> simp_all
theorem nb_mul (a : List PV) : evalBuiltin "__mul__" a = none := by unfold evalBuiltin; split <;> simp_all
theorem nb_lit (a : List PV) : evalBuiltin "__float__" a = none := by unfold evalBuiltin; split <;> simp_all
theorem nb_fits (a : List PV) : evalBuiltin "self._fits_float" a = none := by unfold evalBuiltin; split <;> simp_all
theorem nb_isStr (a : List PV) : evalBuiltin "isinstance_str" a = none := by unfold evalBuiltin; split <;> simp_all
theorem nb_isTat (a : List PV) : evalBuiltin "isinstance_TargetAddressType" a = none := by unfold evalBuiltin; split <;> simp_all
theorem nb_callable (a : List PV) : evalBuiltin "callable" a = none := by unfold evalBuiltin; split <;> simp_all
theorem nb_tat (a : List PV) : evalBuiltin "isotp.TargetAddressType" a = none := by unfold evalBuiltin; split <;> simp_all
theorem nb_caught (a : List PV) : evalBuiltin "__caught__" a = none := by unfold evalBuiltin; split <;> simp_all
theorem nb_wait (a : List PV) : evalBuiltin "self.wait_func" a = none := by unfold evalBuiltin; split <;> simp_all


/-! ## 3. Value-level lemmas -/

theorem bi_int (v : PyVal) : evalBuiltin "isinstance_int" [pv v] = some (.ok (pbool v.isInt)) := rfl
theorem bi_bool (v : PyVal) : evalBuiltin "isinstance_bool" [pv v] = some (.ok (pbool v.isBool)) := by cases v <;> rfl
theorem bi_float (v : PyVal) : evalBuiltin "isinstance_float" [pv v] = some (.ok (pbool v.isFloat)) := by cases v <;> rfl
theorem bi_intfloat (v : PyVal) : evalBuiltin "isinstance_int_float" [pv v] = some (.ok (pbool (isNumber v))) := rfl
theorem bi_int_enum (c m : String) : evalBuiltin "isinstance_int" [.sc (.enum c m)] = some (.ok (pbool false)) := rfl

theorem bne_pnone (v : PyVal) : ((pv v) != pnone) = !v.isNone := by cases v <;> simp [PyVal.isNone]

theorem cmp_lt_int (v : PyVal) (h : v.isInt = true) (k : Int) :
    evalCmp .lt (pv v) (pint k) = .ok (pbool (decide (v.intVal < k))) := by
  cases v <;> simp_all [PyVal.isInt, evalCmp, isNumber, numLt, PyVal.intVal] <;> congr
theorem cmp_gt_int (v : PyVal) (h : v.isInt = true) (k : Int) :
    evalCmp .gt (pv v) (pint k) = .ok (pbool (decide (k < v.intVal))) := by
  cases v <;> simp_all [PyVal.isInt, evalCmp, isNumber, numLt, PyVal.intVal] <;> congr
theorem cmp_gt_int_int (v w : PyVal) (h : v.isInt = true) (h' : w.isInt = true) :
    evalCmp .gt (pv v) (pv w) = .ok (pbool (decide (w.intVal < v.intVal))) := by
  cases v <;> cases w <;> simp_all [PyVal.isInt, evalCmp, isNumber, numLt, PyVal.intVal] <;> congr

theorem dec_congr {a b : Prop} [ia : Decidable a] [ib : Decidable b] (h : a ↔ b) : @decide a ia = @decide b ib := by
  by_cases ha : a <;> simp [ha, h.symm]

/-- `v < 0` on any number -/
theorem cmp_lt_zero (v : PyVal) (h : isNumber v = true) : evalCmp .lt (pv v) (pint 0) = .ok (pbool v.ltZero) := by
  cases v <;> simp_all [evalCmp, isNumber, numLt, PyVal.isInt, PyVal.intVal, PyVal.ltZero]
  case bool b => cases b <;> rfl
  all_goals exact dec_congr Iff.rfl
theorem le_zero_aux (i : Int) : (decide (i < 0) || i == 0) = decide (i ≤ 0) := by
  by_cases h1 : i < 0 <;> by_cases h2 : i = 0 <;> by_cases h3 : i ≤ 0 <;> simp [h1, h2, h3] <;> omega
/-- `v <= 0` on any number -/
theorem cmp_le_zero (v : PyVal) (h : isNumber v = true) : evalCmp .le (pv v) (pint 0) = .ok (pbool v.leZero) := by
  cases v with
  | bool b => cases b <;> rfl
  | int i =>
    simp only [evalCmp, isNumber, numLt, PyVal.isInt, PyVal.intVal, PyVal.leZero, PyVal.pyEq, bind, Except.bind]
    by_cases h1 : i < 0 <;> by_cases h2 : i = 0 <;> by_cases h3 : i ≤ 0 <;> simp [h1, h2, h3] <;> omega
  | float n d =>
    simp only [evalCmp, isNumber, numLt, PyVal.isInt, PyVal.intVal, PyVal.leZero, PyVal.pyEq, bind, Except.bind]
    by_cases h1 : n < 0 <;> by_cases h2 : n = 0 <;> by_cases h3 : n ≤ 0 <;> simp [h1, h2, h3] <;> omega
  | nan => rfl
  | posInf => rfl
  | negInf => rfl
  | none => simp [isNumber] at h
  | str t => simp [isNumber] at h
  | other t => simp [isNumber] at h
/-- `v < k` on any number -/
theorem cmp_lt_num (v : PyVal) (h : isNumber v = true) (k : Int) : evalCmp .lt (pv v) (pint k) = .ok (pbool (v.ltInt k)) := by
  cases v <;> simp_all [evalCmp, isNumber, numLt, PyVal.isInt, PyVal.intVal, PyVal.ltInt]
  all_goals exact dec_congr Iff.rfl


/-! ## 4. Stepping through a chain of checks in the second semantics -/

def VE : String := "ValueError"
def raiseVE : PBlock := .cons (.raise "ValueError") .nil

/-- a statement that, for every fuel `≥ k`: falls through to `env'` when `c`, raises `ValueError` otherwise -/
def StepS (M : Meths) (k : Nat) (env : Env) (s : PStmt) (c : Bool) (env' : Env) : Prop :=
  (c = true → ∀ n, k ≤ n → exec2S n M env s = .ok (.next env')) ∧
  (c = false → ∀ n, k ≤ n → ∃ e, exec2S n M env s = .ok (.raised "ValueError" e))
/-- the same for a block -/
def StepB (M : Meths) (k : Nat) (env : Env) (b : PBlock) (c : Bool) (env' : Env) : Prop :=
  (c = true → ∀ n, k ≤ n → exec2B n M env b = .ok (.next env')) ∧
  (c = false → ∀ n, k ≤ n → ∃ e, exec2B n M env b = .ok (.raised "ValueError" e))

theorem StepS.mono {M : Meths} {k k' : Nat} {env env' : Env} {s : PStmt} {c : Bool} (h : StepS M k env s c env') (hk : k ≤ k') :
    StepS M k' env s c env' :=
  ⟨fun hc n hn => h.1 hc n (by omega), fun hc n hn => h.2 hc n (by omega)⟩
theorem StepB.mono {M : Meths} {k k' : Nat} {env env' : Env} {b : PBlock} {c : Bool} (h : StepB M k env b c env') (hk : k ≤ k') :
    StepB M k' env b c env' :=
  ⟨fun hc n hn => h.1 hc n (by omega), fun hc n hn => h.2 hc n (by omega)⟩

/-- replace the condition by an equal one -/
theorem StepS.congr {M : Meths} {k : Nat} {env env' : Env} {s : PStmt} {c c' : Bool} (h : StepS M k env s c env') (hc : c = c') :
    StepS M k env s c' env' := hc ▸ h
theorem StepB.congr {M : Meths} {k : Nat} {env env' : Env} {b : PBlock} {c c' : Bool} (h : StepB M k env b c env') (hc : c = c') :
    StepB M k env b c' env' := hc ▸ h

theorem StepB.nil (M : Meths) (k : Nat) (env : Env) (hk : 1 ≤ k) : StepB M k env .nil true env := by
  refine ⟨fun _ n hn => ?_, fun h => by cases h⟩
  obtain ⟨m, rfl⟩ : ∃ m, n = m + 1 := ⟨n - 1, by omega⟩
  rfl

theorem StepB.cons {M : Meths} {k : Nat} {env env1 env2 : Env} {s : PStmt} {rest : PBlock} {c1 c2 : Bool}
    (hs : StepS M k env s c1 env1) (hr : c1 = true → StepB M k env1 rest c2 env2) :
    StepB M (k + 1) env (.cons s rest) (c1 && c2) env2 := by
  constructor
  · intro hc n hn
    simp only [Bool.and_eq_true] at hc
    obtain ⟨m, rfl⟩ : ∃ m, n = m + 1 := ⟨n - 1, by omega⟩
    rw [exec2B_cons, hs.1 hc.1 m (by omega)]
    exact (hr hc.1).1 hc.2 m (by omega)
  · intro hc n hn
    obtain ⟨m, rfl⟩ : ∃ m, n = m + 1 := ⟨n - 1, by omega⟩
    rw [exec2B_cons]
    cases h1 : c1 with
    | false =>
      obtain ⟨e, he⟩ := hs.2 h1 m (by omega)
      exact ⟨e, by rw [he]⟩
    | true =>
      rw [hs.1 h1 m (by omega)]
      rw [h1] at hc
      exact (hr h1).2 (by simpa using hc) m (by omega)

theorem StepB.cons' {M : Meths} {k ks : Nat} {env env1 env2 : Env} {s : PStmt} {rest : PBlock} {c1 c2 : Bool}
    (hs : StepS M ks env s c1 env1) (hr : c1 = true → StepB M k env1 rest c2 env2) (hks : ks ≤ k := by decide) :
    StepB M (k + 1) env (.cons s rest) (c1 && c2) env2 :=
  StepB.cons (hs.mono hks) hr

/-- a statement proved in the first semantics (no `tryCatch` inside) -/
theorem StepS.of_exec {M : Meths} {env env' : Env} {s : PStmt} {c : Bool} (k : Nat)
    (hl : loopFreeS s = true) (hd : dumperShapeS s = true) (hk : depthS s ≤ k)
    (h : execStmt M env s = if c then .ok (.next env') else .error (.exc .ValueError)) : StepS M k env s c env' := by
  constructor
  · intro hc n hn
    rw [hc] at h
    exact exec2S_of_execStmt_ok M s n env _ hl hd (by omega) h
  · intro hc n hn
    rw [hc] at h
    obtain ⟨e, he⟩ := exec2S_of_execStmt_error M s n env _ hl hd (by omega) h (.inl rfl)
    exact ⟨e, he⟩

/-- `if c: <block>` / `if c: <block> else: <block>` -/
theorem StepS.ite {M : Meths} {k : Nat} {env env' : Env} {c : PExpr} {t e : PBlock} {v : PV} {b cnd : Bool}
    (hc : eval M env c = .ok v) (ht : truthy v = .ok b) (hb : StepB M k env (if b then t else e) cnd env') :
    StepS M (k + 1) env (.ite c t e) cnd env' := by
  constructor
  · intro h n hn
    obtain ⟨m, rfl⟩ : ∃ m, n = m + 1 := ⟨n - 1, by omega⟩
    rw [exec2S_ite, hc]; simp only [ht]
    cases b <;> exact hb.1 h m (by omega)
  · intro h n hn
    obtain ⟨m, rfl⟩ : ∃ m, n = m + 1 := ⟨n - 1, by omega⟩
    rw [exec2S_ite, hc]; simp only [ht]
    cases b <;> exact hb.2 h m (by omega)

/-- `raise ValueError` -/
theorem raiseVE_exec (M : Meths) (env : Env) (n : Nat) (hn : 2 ≤ n) :
    exec2B n M env raiseVE = .ok (.raised "ValueError" env) := by
  obtain ⟨m, rfl⟩ : ∃ m, n = m + 2 := ⟨n - 2, by omega⟩
  rfl

/-- `try: t = E  except <cls>: H` when `E` evaluates -/
theorem tryCatch_assign_ok (M : Meths) (env : Env) (t : String) (E : PExpr) (cls : String) (H : PBlock) (v : PV)
    (h : eval M env E = .ok v) (n : Nat) (hn : 3 ≤ n) :
    exec2S n M env (.tryCatch (.cons (.assign t E) .nil) cls H) = .ok (.next (env.set t v)) := by
  obtain ⟨m, rfl⟩ : ∃ m, n = m + 3 := ⟨n - 3, by omega⟩
  rw [exec2S_tryCatch, exec2B_single m M env _ rfl]
  simp only [simple2, execStmt, h, ok_bind, ofFlow]

/-- `try: t = E  except OverflowError: H` when `E` raises `OverflowError` -/
theorem tryCatch_assign_ovf (M : Meths) (env : Env) (t : String) (E : PExpr) (H : PBlock)
    (h : eval M env E = .error (.exc .OverflowError)) (n : Nat) (hn : 3 ≤ n) :
    exec2S n M env (.tryCatch (.cons (.assign t E) .nil) "OverflowError" H) = exec2B (n - 1) M env H := by
  obtain ⟨m, rfl⟩ : ∃ m, n = m + 3 := ⟨n - 3, by omega⟩
  rw [exec2S_tryCatch, exec2B_single m M env _ rfl]
  simp only [simple2, execStmt, h, error_bind, ofPErr]
  rfl


/-! ## 5. The statements of `validate` -/

/-- the n-th top-level statement of a block -/
def stmtAt : PBlock → Nat → PStmt
  | .nil, _ => .pass
  | .cons s _, 0 => s
  | .cons _ r, n + 1 => stmtAt r n

/-- `if not isinstance(x, int): raise ValueError` -/
def notIntG (nm : String) : PStmt := .ite (.not_ (.call "isinstance_int" (.cons (.var nm) .nil))) raiseVE .nil
/-- `if not isinstance(x, bool): raise ValueError` -/
def notBoolG (nm : String) : PStmt := .ite (.not_ (.call "isinstance_bool" (.cons (.var nm) .nil))) raiseVE .nil
/-- `if x < 0: raise ValueError` -/
def ltZeroG (nm : String) : PStmt := .ite (.cmp .lt (.var nm) (.int 0)) raiseVE .nil
/-- `if x < 0 or x > 0xFF: raise ValueError` -/
def rangeG (nm : String) : PStmt := .ite (.or_ (.cmp .lt (.var nm) (.int 0)) (.cmp .gt (.var nm) (.int 255))) raiseVE .nil
/-- `if x < 0 or not self._fits_float(x): raise ValueError` -/
def fitsG (nm : String) : PStmt :=
  .ite (.or_ (.cmp .lt (.var nm) (.int 0)) (.not_ (.call "self._fits_float" (.cons (.var nm) .nil)))) raiseVE .nil

abbrev V (n : Nat) : PStmt := stmtAt Src.TransportLayerLogic_Params_validate n

/-- the shape of the dumped body: 35 top-level statements, 24 of them instances of the five shapes above -/
theorem body_eq : Src.TransportLayerLogic_Params_validate =
    .cons (notIntG "self.rx_flowcontrol_timeout") (.cons (fitsG "self.rx_flowcontrol_timeout")
    (.cons (notIntG "self.rx_consecutive_frame_timeout") (.cons (fitsG "self.rx_consecutive_frame_timeout")
    (.cons (V 4)
    (.cons (notIntG "self.stmin") (.cons (rangeG "self.stmin")
    (.cons (notIntG "self.blocksize") (.cons (rangeG "self.blocksize")
    (.cons (V 9)
    (.cons (notIntG "self.wftmax") (.cons (ltZeroG "self.wftmax")
    (.cons (notIntG "self.tx_data_length") (.cons (V 13)
    (.cons (V 14)
    (.cons (notIntG "self.max_frame_size") (.cons (ltZeroG "self.max_frame_size")
    (.cons (notBoolG "self.can_fd") (.cons (notBoolG "self.bitrate_switch")
    (.cons (V 19) (.cons (V 20) (.cons (V 21)
    (.cons (notIntG "self.rate_limit_max_bitrate") (.cons (V 23)
    (.cons (V 24) (.cons (V 25)
    (.cons (V 26) (.cons (V 27)
    (.cons (notBoolG "self.rate_limit_enable")
    (.cons (V 29)
    (.cons (notBoolG "self.listen_mode") (.cons (notBoolG "self.blocking_send")
    (.cons (V 32) (.cons (V 33) (.cons (V 34) .nil)))))))))))))))))))))))))))))))))) := rfl

/-- fuel that is enough for every top-level statement -/
def K : Nat := 12

section shapes
variable (M : Meths) (env : Env) (nm : String) (v : PyVal)

theorem notIntG_exec (h : env nm = some (pv v)) :
    execStmt M env (notIntG nm) = if v.isInt then .ok (.next env) else .error (.exc .ValueError) := by
  cases hi : v.isInt <;> simp [notIntG, raiseVE, execStmt, execBlock, eval, evalArgs, h, bi_int, hi]

theorem notBoolG_exec (h : env nm = some (pv v)) :
    execStmt M env (notBoolG nm) = if v.isBool then .ok (.next env) else .error (.exc .ValueError) := by
  cases hi : v.isBool <;> simp [notBoolG, raiseVE, execStmt, execBlock, eval, evalArgs, h, bi_bool, hi]

theorem ltZeroG_exec (h : env nm = some (pv v)) (hi : v.isInt = true) :
    execStmt M env (ltZeroG nm) = if decide (0 ≤ v.intVal) then .ok (.next env) else .error (.exc .ValueError) := by
  by_cases h1 : 0 ≤ v.intVal
  · have h1' : ¬ v.intVal < 0 := by omega
    simp [ltZeroG, raiseVE, execStmt, execBlock, eval, h, cmp_lt_int, hi, h1, h1']
  · have h1' : v.intVal < 0 := by omega
    simp [ltZeroG, raiseVE, execStmt, execBlock, eval, h, cmp_lt_int, hi, h1, h1']

theorem rangeG_exec (h : env nm = some (pv v)) (hi : v.isInt = true) :
    execStmt M env (rangeG nm) =
      if decide (0 ≤ v.intVal) && decide (v.intVal ≤ 255) then .ok (.next env) else .error (.exc .ValueError) := by
  by_cases h1 : 0 ≤ v.intVal <;> by_cases h2 : 255 < v.intVal <;>
    simp [rangeG, raiseVE, execStmt, execBlock, eval, h, cmp_lt_int, cmp_gt_int, hi, h1, h2, Int.not_le.mpr, Int.not_lt.mp]

theorem notIntG_step (h : env nm = some (pv v)) : StepS M K env (notIntG nm) v.isInt env :=
  StepS.of_exec K rfl rfl (Nat.le_of_ble_eq_true rfl) (notIntG_exec M env nm v h)
theorem notBoolG_step (h : env nm = some (pv v)) : StepS M K env (notBoolG nm) v.isBool env :=
  StepS.of_exec K rfl rfl (Nat.le_of_ble_eq_true rfl) (notBoolG_exec M env nm v h)
theorem ltZeroG_step (h : env nm = some (pv v)) (hi : v.isInt = true) : StepS M K env (ltZeroG nm) (decide (0 ≤ v.intVal)) env :=
  StepS.of_exec K rfl rfl (Nat.le_of_ble_eq_true rfl) (ltZeroG_exec M env nm v h hi)
theorem rangeG_step (h : env nm = some (pv v)) (hi : v.isInt = true) :
    StepS M K env (rangeG nm) (decide (0 ≤ v.intVal) && decide (v.intVal ≤ 255)) env :=
  StepS.of_exec K rfl rfl (Nat.le_of_ble_eq_true rfl) (rangeG_exec M env nm v h hi)
end shapes


/-- `x == k` for an `int` / `bool` value -/
theorem pvEq_int (v : PyVal) (h : v.isInt = true) (k : Int) : pvEq (pv v) (.sc (.py (.int k))) = (v.intVal == k) := by
  cases v <;> simp_all [pvEq, Sc.eq, PyVal.pyEq, PyVal.isInt, PyVal.intVal]

section uniq
variable (M : Meths) (env : Env)

/-- statement 4: `if self.tx_padding is not None: ...` -/
theorem s4_exec (v : PyVal) (h : env "self.tx_padding" = some (pv v)) :
    execStmt M env (V 4) = if v.isNone || intIn v 0 0xFF then .ok (.next env) else .error (.exc .ValueError) := by
  cases hn : v.isNone
  · cases hi : v.isInt
    · simp [V, stmtAt, Src.TransportLayerLogic_Params_validate, execStmt, execBlock, eval, evalArgs, h, bne_pnone, bi_int, hn, hi, intIn]
    · by_cases h1 : v.intVal < 0 <;> by_cases h2 : 255 < v.intVal <;>
        simp [V, stmtAt, Src.TransportLayerLogic_Params_validate, execStmt, execBlock, eval, evalArgs, h, bne_pnone, bi_int, hn, hi,
          intIn, cmp_lt_int, cmp_gt_int, h1, h2] <;> omega
  · simp [V, stmtAt, Src.TransportLayerLogic_Params_validate, execStmt, execBlock, eval, h, bne_pnone, hn]

/-- statement 13: `if self.tx_data_length not in [8, 12, 16, 20, 24, 32, 48, 64]: raise` -/
theorem s13_exec (v : PyVal) (h : env "self.tx_data_length" = some (pv v)) (hi : v.isInt = true) :
    execStmt M env (V 13) =
      if decide (v.intVal ∈ [8, 12, 16, 20, 24, 32, 48, 64]) then .ok (.next env) else .error (.exc .ValueError) := by
  simp [V, stmtAt, Src.TransportLayerLogic_Params_validate, execStmt, execBlock, eval, evalArgs, h, pvEq_int, hi]
  split <;> split <;> first | rfl | (exfalso; omega)


theorem blk_check (s : PStmt) (rest : PBlock) (c : Bool)
    (h : execStmt M env s = if c then .ok (.next env) else .error (.exc .ValueError)) :
    execBlock M env (.cons s rest) = if c then execBlock M env rest else .error (.exc .ValueError) := by
  cases c <;> simp [execBlock, h]

theorem ite_exec (c : PExpr) (t e : PBlock) (v : PV) (b : Bool) (hc : eval M env c = .ok v) (ht : truthy v = .ok b) :
    execStmt M env (.ite c t e) = execBlock M env (if b then t else e) := by
  cases b <;> simp [execStmt, hc, ht]

theorem guard_exec (c : PExpr) (v : PV) (b : Bool) (hc : eval M env c = .ok v) (ht : truthy v = .ok b) :
    execStmt M env (.ite c raiseVE .nil) = if !b then .ok (.next env) else .error (.exc .ValueError) := by
  cases b <;> simp [execStmt, execBlock, raiseVE, hc, ht]

/-- `if self.tx_data_min_length not in [1, ..., 64]: raise` -/
def minLenIn : PStmt := stmtAt (match V 14 with | .ite _ t _ => t | _ => .nil) 1
/-- `if self.tx_data_min_length > self.tx_data_length: raise` -/
def minLenGt : PStmt := stmtAt (match V 14 with | .ite _ t _ => t | _ => .nil) 2

theorem s14_eq : V 14 = .ite (.isNotNone (.var "self.tx_data_min_length"))
    (.cons (notIntG "self.tx_data_min_length") (.cons minLenIn (.cons minLenGt .nil))) .nil := rfl

theorem minLenIn_exec (v : PyVal) (h : env "self.tx_data_min_length" = some (pv v)) (hi : v.isInt = true) :
    execStmt M env minLenIn =
      if decide (v.intVal ∈ [1, 2, 3, 4, 5, 6, 7, 8, 12, 16, 20, 24, 32, 48, 64]) then .ok (.next env)
      else .error (.exc .ValueError) := by
  simp [minLenIn, V, stmtAt, Src.TransportLayerLogic_Params_validate, execStmt, execBlock, eval, evalArgs, h, pvEq_int, hi]
  split <;> split <;> first | rfl | (exfalso; omega)

theorem minLenGt_exec (v t : PyVal) (h : env "self.tx_data_min_length" = some (pv v)) (ht : env "self.tx_data_length" = some (pv t))
    (hi : v.isInt = true) (hti : t.isInt = true) :
    execStmt M env minLenGt = if decide (v.intVal ≤ t.intVal) then .ok (.next env) else .error (.exc .ValueError) := by
  by_cases h1 : t.intVal < v.intVal
  · have h2 : ¬ v.intVal ≤ t.intVal := by omega
    simp [minLenGt, V, stmtAt, Src.TransportLayerLogic_Params_validate, execStmt, execBlock, eval, h, ht, cmp_gt_int_int, hi, hti, h1, h2]
  · have h2 : v.intVal ≤ t.intVal := by omega
    simp [minLenGt, V, stmtAt, Src.TransportLayerLogic_Params_validate, execStmt, execBlock, eval, h, ht, cmp_gt_int_int, hi, hti, h1, h2]

/-- statement 14: `if self.tx_data_min_length is not None: ...` -/
theorem s14_exec (v t : PyVal) (h : env "self.tx_data_min_length" = some (pv v)) (ht : env "self.tx_data_length" = some (pv t))
    (hti : t.isInt = true) :
    execStmt M env (V 14) =
      if v.isNone || (minLenOk v && decide (v.intVal ≤ t.intVal)) then .ok (.next env) else .error (.exc .ValueError) := by
  rw [s14_eq, ite_exec M env _ _ _ (pbool (!v.isNone)) (!v.isNone) (by simp [eval, h, bne_pnone]) rfl]
  cases hn : v.isNone
  · simp only [Bool.not_false, if_true, Bool.false_or]
    rw [blk_check M env _ _ _ (notIntG_exec M env _ v h)]
    cases hi : v.isInt
    · simp [minLenOk, hi]
    · rw [if_pos rfl, blk_check M env _ _ _ (minLenIn_exec M env v h hi), blk_check M env _ _ _ (minLenGt_exec M env v t h ht hi hti)]
      simp only [minLenOk, hi, Bool.true_and, execBlock]
      cases decide (v.intVal ∈ [1, 2, 3, 4, 5, 6, 7, 8, 12, 16, 20, 24, 32, 48, 64]) <;> cases decide (v.intVal ≤ t.intVal) <;> rfl
  · simp [execBlock]


/-- statement 23: `if self.rate_limit_max_bitrate <= 0: raise` -/
theorem s23_exec (v : PyVal) (h : env "self.rate_limit_max_bitrate" = some (pv v)) (hi : v.isInt = true) :
    execStmt M env (V 23) = if decide (0 < v.intVal) then .ok (.next env) else .error (.exc .ValueError) := by
  have hn : isNumber v = true := by cases v <;> simp_all [PyVal.isInt, isNumber]
  have hl : (!v.leZero) = decide (0 < v.intVal) := by
    cases v <;> simp_all [PyVal.isInt, PyVal.leZero, PyVal.intVal]
    case bool b => cases b <;> rfl
    case int i => by_cases h0 : 0 < i <;> simp [h0] <;> omega
  rw [show V 23 = .ite (.cmp .le (.var "self.rate_limit_max_bitrate") (.int 0)) raiseVE .nil from rfl,
    guard_exec M env _ (pbool v.leZero) v.leZero (by simp [eval, h, cmp_le_zero, hn]) rfl, hl]

/-- statement 24: `if not (isinstance(w, float) or isinstance(w, int)): raise` -/
theorem s24_exec (w : PyVal) (h : env "self.rate_limit_window_size" = some (pv w)) :
    execStmt M env (V 24) = if w.isFloat || w.isInt then .ok (.next env) else .error (.exc .ValueError) := by
  cases h1 : w.isFloat <;> cases h2 : w.isInt <;>
    simp [V, stmtAt, Src.TransportLayerLogic_Params_validate, execStmt, execBlock, eval, evalArgs, h, bi_float, bi_int, h1, h2]

/-- statement 25: `if self.rate_limit_window_size <= 0: raise` -/
theorem s25_exec (w : PyVal) (h : env "self.rate_limit_window_size" = some (pv w)) (hn : isNumber w = true) :
    execStmt M env (V 25) = if !w.leZero then .ok (.next env) else .error (.exc .ValueError) := by
  rw [show V 25 = .ite (.cmp .le (.var "self.rate_limit_window_size") (.int 0)) raiseVE .nil from rfl,
    guard_exec M env _ (pbool w.leZero) w.leZero (by simp [eval, h, cmp_le_zero, hn]) rfl]

/-- statement 27: `if not window_bits_finite: raise` -/
theorem s27_exec (b : Bool) (h : env "window_bits_finite" = some (pbool b)) :
    execStmt M env (V 27) = if b then .ok (.next env) else .error (.exc .ValueError) := by
  rw [show V 27 = .ite (.not_ (.var "window_bits_finite")) raiseVE .nil from rfl,
    guard_exec M env _ (pbool (!b)) (!b) (by simp [eval, h]) rfl, Bool.not_not]

end uniq

section withMeths
variable (p : ParamArgs) (F : Facts) (env : Env)
local notation "M" => paramsMeths p F

theorem fitsG_exec (nm : String) (v : PyVal) (h : env nm = some (pv v)) (hi : v.isInt = true) :
    execStmt M env (fitsG nm) =
      if decide (0 ≤ v.intVal) && F.fits v.intVal then .ok (.next env) else .error (.exc .ValueError) := by
  by_cases h1 : v.intVal < 0
  · have h1' : ¬ 0 ≤ v.intVal := by omega
    rw [fitsG, guard_exec M env _ (pbool true) true (by simp [eval, h, cmp_lt_int, hi, h1]) rfl]
    simp [h1']
  · have h1' : 0 ≤ v.intVal := by omega
    rw [fitsG, guard_exec M env _ (pbool (!F.fits v.intVal)) (!F.fits v.intVal)
      (by simp [eval, evalArgs, h, cmp_lt_int, hi, h1, nb_fits, M_fits]) rfl]
    simp [h1']

theorem fitsG_step (nm : String) (v : PyVal) (h : env nm = some (pv v)) (hi : v.isInt = true) :
    StepS M K env (fitsG nm) (decide (0 ≤ v.intVal) && F.fits v.intVal) env :=
  StepS.of_exec K rfl rfl (Nat.le_of_ble_eq_true rfl) (fitsG_exec p F env nm v h hi)

/-- statement 32: `if not isinstance(self.logger_name, str): raise` -/
theorem s32_exec (l : PV) (h : env "self.logger_name" = some l) :
    execStmt M env (V 32) = if isStrPV l then .ok (.next env) else .error (.exc .ValueError) := by
  rw [show V 32 = .ite (.not_ (.call "isinstance_str" (.cons (.var "self.logger_name") .nil))) raiseVE .nil from rfl,
    guard_exec M env _ (pbool (!isStrPV l)) (!isStrPV l) (by simp [eval, evalArgs, h, nb_isStr, M_isStr]) rfl, Bool.not_not]

/-- statement 33: `if not callable(self.wait_func): raise` -/
theorem s33_exec (w : PV) (h : env "self.wait_func" = some w) :
    execStmt M env (V 33) = if isCallablePV w then .ok (.next env) else .error (.exc .ValueError) := by
  rw [show V 33 = .ite (.not_ (.call "callable" (.cons (.var "self.wait_func") .nil))) raiseVE .nil from rfl,
    guard_exec M env _ (pbool (!isCallablePV w)) (!isCallablePV w) (by simp [eval, evalArgs, h, nb_callable, M_callable]) rfl,
    Bool.not_not]

/-- statement 34: `try: self.wait_func(0.001)  except Exception as e: raise ValueError` -/
theorem s34_exec : execStmt M env (V 34) = if F.waitExc.isNone then .ok (.next env) else .error (.exc .ValueError) := by
  cases hw : F.waitExc <;>
    simp [V, stmtAt, Src.TransportLayerLogic_Params_validate, execStmt, execBlock, eval, evalArgs, nb_wait, nb_lit, M_lit, lit_001,
      M_wait, hw, nb_caught, M_caught]


abbrev tatKey : String := "self.default_target_address_type"

/-- statement 19, the attribute holding a raw Python value: `if isinstance(t, int): t = isotp.TargetAddressType(t)` -/
theorem s19_raw (v : PyVal) (h : env tatKey = some (pv v)) :
    execStmt M env (V 19) =
      if !v.isInt || (v.intVal == 0 || v.intVal == 1)
      then .ok (.next (if v.isInt then env.set tatKey (tatOfInt v.intVal) else env)) else .error (.exc .ValueError) := by
  cases hi : v.isInt
  · simp [V, stmtAt, Src.TransportLayerLogic_Params_validate, execStmt, execBlock, eval, evalArgs, h, bi_int, hi, tatKey]
  · by_cases h0 : v.intVal = 0
    · simp [V, stmtAt, Src.TransportLayerLogic_Params_validate, execStmt, execBlock, eval, evalArgs, h, bi_int, hi, tatKey,
        nb_tat, M_tat, pyTat, tatOfInt, h0]
    · by_cases h1 : v.intVal = 1
      · simp [V, stmtAt, Src.TransportLayerLogic_Params_validate, execStmt, execBlock, eval, evalArgs, h, bi_int, hi, tatKey,
          nb_tat, M_tat, pyTat, tatOfInt, h0, h1]
      · simp [V, stmtAt, Src.TransportLayerLogic_Params_validate, execStmt, execBlock, eval, evalArgs, h, bi_int, hi, tatKey,
          nb_tat, M_tat, pyTat, tatOfInt, h0, h1]

/-- statement 19, the attribute holding a `TargetAddressType` member -/
theorem s19_member (c m : String) (h : env tatKey = some (.sc (.enum c m))) :
    execStmt M env (V 19) = .ok (.next env) := by
  simp [V, stmtAt, Src.TransportLayerLogic_Params_validate, execStmt, execBlock, eval, evalArgs, h, bi_int_enum, tatKey]

/-- statement 20: `if not isinstance(t, isotp.TargetAddressType): raise` -/
theorem s20_exec (tv : PV) (h : env tatKey = some tv) :
    execStmt M env (V 20) = if isTatPV tv then .ok (.next env) else .error (.exc .ValueError) := by
  rw [show V 20 = .ite (.not_ (.call "isinstance_TargetAddressType" (.cons (.var tatKey) .nil))) raiseVE .nil from rfl,
    guard_exec M env _ (pbool (!isTatPV tv)) (!isTatPV tv) (by simp [eval, evalArgs, h, nb_isTat, M_isTat]) rfl, Bool.not_not]

/-- statement 21: `if t not in [TargetAddressType.Physical, TargetAddressType.Functional]: raise` -/
theorem s21_exec (tv : PV) (h : env tatKey = some tv)
    (hP : env "isotp.address.TargetAddressType.Physical" = some tatPhys)
    (hF : env "isotp.address.TargetAddressType.Functional" = some tatFunc) :
    execStmt M env (V 21) = if pvEq tv tatPhys || pvEq tv tatFunc then .ok (.next env) else .error (.exc .ValueError) := by
  cases h1 : pvEq tv tatPhys <;> cases h2 : pvEq tv tatFunc <;>
    simp [V, stmtAt, Src.TransportLayerLogic_Params_validate, execStmt, execBlock, eval, evalArgs, h, hP, hF, tatKey] <;>
    simp_all [tatPhys, tatFunc]


/-! ### the float facts -/

/-- `v` is an `int` (not a `bool`) too large to be converted to a float -/
def bigInt (F : Facts) : PyVal → Bool
  | .int i => F.big i
  | _ => false

/-- **What ties the model's float facts (`p.prod`, `p.ovrScaledFinite`) to the primitives of `Facts`** - each clause is what
    `harness/core.py` (`do_params`) computes when it builds the `ParamArgs` of a run:
    * `ovr`: when `float(override_receiver_stmin)` raises `OverflowError`, `ovrScaledFinite` is handed over as `False`;
    * `prodFloat`: the product of the bitrate with a float window is a float;
    * `prodBig`: when `bitrate * <float window>` raises `OverflowError`, `prod` is handed over as `+inf`;
    * `prodInt`: with an `int` / `bool` window the product is the exact integer, handed over as such unless it (or the window)
      is too large for a float, in which case `prod` is handed over as `+inf`. -/
structure Coherent (p : ParamArgs) (F : Facts) : Prop where
  ovr : bigInt F p.overrideStmin = true → p.ovrScaledFinite = false
  prodFloat : p.rlWindow.isFloat = true → p.prod.isFloat = true
  prodBig : p.rlWindow.isFloat = true → p.rlBitrate.isInt = true → F.big p.rlBitrate.intVal = true → p.prod.isFinite = false
  prodInt : p.rlWindow.isInt = true → p.rlBitrate.isInt = true →
    if bigInt F p.rlWindow || F.big (p.rlBitrate.intVal * p.rlWindow.intVal) then p.prod.isFinite = false
    else p.prod = .int (p.rlBitrate.intVal * p.rlWindow.intVal)

/-- `math.isfinite(w) and math.isfinite(bitrate * w)` in the model -/
def finBits (p : ParamArgs) : Bool := p.rlWindow.isFinite && p.prod.isFinite

abbrev brKey : String := "self.rate_limit_max_bitrate"
abbrev winKey : String := "self.rate_limit_window_size"

/-- the expression assigned to `window_bits_finite` -/
abbrev E26 : PExpr :=
  .and_ (.call "math.isfinite" (.cons (.var winKey) .nil))
    (.call "math.isfinite" (.cons (.call "__mul__" (.cons (.var brKey) (.cons (.var winKey) .nil))) .nil))

theorem isFloat_isFinite (v : PyVal) (h : v.isFloat = true) : pyIsFinite F v = .ok (pbool v.isFinite) := by
  cases v <;> simp_all [PyVal.isFloat, pyIsFinite, PyVal.isFinite]
theorem isFloat_not_isInt (v : PyVal) (h : v.isFloat = true) : v.isInt = false := by
  cases v <;> simp_all [PyVal.isFloat, PyVal.isInt]
theorem isInt_not_isFloat (v : PyVal) (h : v.isInt = true) : v.isFloat = false := by
  cases v <;> simp_all [PyVal.isFloat, PyVal.isInt]

theorem pyIsFinite_int (i : Int) :
    pyIsFinite F (.int i) = if F.big i then .error (.exc .OverflowError) else .ok (pbool true) := rfl
theorem isFinite_int (i : Int) : (PyVal.int i).isFinite = true := rfl

theorem pyMul_int (a b : PyVal) (ha : a.isInt = true) (hb : b.isInt = true) :
    pyMul p F a b = .ok (pint (a.intVal * b.intVal)) := by
  simp [pyMul, ha, hb]
theorem pyMul_bw_float (hbi : p.rlBitrate.isInt = true) (hwf : p.rlWindow.isFloat = true) :
    pyMul p F p.rlBitrate p.rlWindow =
      if F.big p.rlBitrate.intVal then .error (.exc .OverflowError) else .ok (pv p.prod) := by
  simp [pyMul, hbi, hwf, isFloat_not_isInt _ hwf, isInt_not_isFloat _ hbi]
theorem pyMul_1e9 (a : PyVal) (ha : a.isFloat = true) : pyMul p F a lit1e9 = .ok (pv (scaled p a)) := by
  simp [pyMul, ha, isFloat_not_isInt _ ha]

theorem eval_E26 (hC : Coherent p F) (hb : env brKey = some (pv p.rlBitrate)) (hw : env winKey = some (pv p.rlWindow))
    (hbi : p.rlBitrate.isInt = true) (hwn : (p.rlWindow.isFloat || p.rlWindow.isInt) = true) :
    eval M env E26 = .ok (pbool (finBits p)) ∨ (eval M env E26 = .error (.exc .OverflowError) ∧ finBits p = false) := by
  cases hwf : p.rlWindow.isFloat
  · -- an `int` / `bool` window
    have hwi : p.rlWindow.isInt = true := by simpa [hwf] using hwn
    have hm := pyMul_int p F _ _ hbi hwi
    have hc := hC.prodInt hwi hbi
    have hfw : p.rlWindow.isFinite = true := by cases hw' : p.rlWindow <;> simp_all [PyVal.isInt, PyVal.isFinite]
    cases hbw : bigInt F p.rlWindow
    · have e1 : pyIsFinite F p.rlWindow = .ok (pbool true) := by
        cases hw' : p.rlWindow <;> simp_all [PyVal.isInt, pyIsFinite, bigInt]
      cases hbp : F.big (p.rlBitrate.intVal * p.rlWindow.intVal)
      · left
        simp only [hbw, hbp, Bool.or_self, Bool.false_eq_true, if_false] at hc
        simp [E26, eval, evalArgs, hb, hw, nb_isfinite, M_isfinite, e1, nb_mul, M_mul, hm, pyIsFinite_int, hbp, finBits, hfw, hc,
          isFinite_int]
      · right
        simp only [hbw, hbp, Bool.false_or, if_true] at hc
        simp [E26, eval, evalArgs, hb, hw, nb_isfinite, M_isfinite, e1, nb_mul, M_mul, hm, pyIsFinite_int, hbp, finBits, hc]
    · right
      have e1 : pyIsFinite F p.rlWindow = .error (.exc .OverflowError) := by
        cases hw' : p.rlWindow <;> simp_all [PyVal.isInt, pyIsFinite, bigInt]
      simp only [hbw, Bool.true_or, if_true] at hc
      simp [E26, eval, evalArgs, hb, hw, nb_isfinite, M_isfinite, e1, finBits, hc]
  · -- a float window
    have h1 := hC.prodFloat hwf
    have h2 := hC.prodBig hwf hbi
    have hm := pyMul_bw_float p F hbi hwf
    have e1 := isFloat_isFinite F _ hwf
    cases hfw : p.rlWindow.isFinite
    · left
      simp [E26, eval, evalArgs, hb, hw, nb_isfinite, M_isfinite, e1, hfw, finBits]
    · cases hbig : F.big p.rlBitrate.intVal
      · left
        simp [E26, eval, evalArgs, hb, hw, nb_isfinite, M_isfinite, e1, hfw, nb_mul, M_mul, hm, hbig, finBits,
          isFloat_isFinite F _ h1]
      · right
        simp [E26, eval, evalArgs, hb, hw, nb_isfinite, M_isfinite, e1, hfw, nb_mul, M_mul, hm, hbig, finBits, h2 hbig]


theorem s26_eq : V 26 = .tryCatch (.cons (.assign "window_bits_finite" E26) .nil) "OverflowError"
    (.cons (.assign "window_bits_finite" .ff) .nil) := rfl

/-- statement 26: `try: window_bits_finite = ...  except OverflowError: window_bits_finite = False` -/
theorem s26_step (hC : Coherent p F) (hb : env brKey = some (pv p.rlBitrate)) (hw : env winKey = some (pv p.rlWindow))
    (hbi : p.rlBitrate.isInt = true) (hwn : (p.rlWindow.isFloat || p.rlWindow.isInt) = true) :
    StepS M K env (V 26) true (env.set "window_bits_finite" (pbool (finBits p))) := by
  refine ⟨fun _ n hn => ?_, fun h => by cases h⟩
  have hn3 : 3 ≤ n := by simp only [K] at hn; omega
  rw [s26_eq]
  rcases eval_E26 p F env hC hb hw hbi hwn with h | ⟨h, hf⟩
  · exact tryCatch_assign_ok M env _ _ _ _ _ h n hn3
  · rw [tryCatch_assign_ovf M env _ _ _ h n hn3, hf]
    obtain ⟨m, rfl⟩ : ∃ m, n = m + 3 := ⟨n - 3, by omega⟩
    show exec2B (m + 2) M env _ = _
    rw [exec2B_single m M env _ rfl]
    rfl

/-- `bitrate * window` once the finiteness check has passed: the model's `prod` -/
theorem pyMul_bw (hC : Coherent p F) (hbi : p.rlBitrate.isInt = true) (hwn : (p.rlWindow.isFloat || p.rlWindow.isInt) = true)
    (hfin : finBits p = true) : pyMul p F p.rlBitrate p.rlWindow = .ok (pv p.prod) := by
  simp only [finBits, Bool.and_eq_true] at hfin
  cases hwf : p.rlWindow.isFloat
  · have hwi : p.rlWindow.isInt = true := by simpa [hwf] using hwn
    have hc := hC.prodInt hwi hbi
    rw [pyMul_int p F _ _ hbi hwi]
    split at hc
    · rw [hfin.2] at hc; cases hc
    · rw [hc]
  · rw [pyMul_bw_float p F hbi hwf]
    cases hbig : F.big p.rlBitrate.intVal
    · rfl
    · have := hC.prodBig hwf hbi hbig
      rw [hfin.2] at this; cases this

theorem isFinite_isNumber (v : PyVal) (h : v.isFinite = true) : isNumber v = true := by
  cases v <;> simp_all [PyVal.isFinite, isNumber]

/-- statement 29: `if bitrate * window < tx_data_length * 8: raise` -/
theorem s29_exec (hC : Coherent p F) (hb : env brKey = some (pv p.rlBitrate)) (hw : env winKey = some (pv p.rlWindow))
    (ht : env "self.tx_data_length" = some (pv p.txDl))
    (hbi : p.rlBitrate.isInt = true) (hwn : (p.rlWindow.isFloat || p.rlWindow.isInt) = true) (hfin : finBits p = true)
    (hti : p.txDl.isInt = true) :
    execStmt M env (V 29) =
      if !(p.prod.ltInt (p.txDl.intVal * 8)) then .ok (.next env) else .error (.exc .ValueError) := by
  have hpn : isNumber p.prod = true := isFinite_isNumber _ (by simp only [finBits, Bool.and_eq_true] at hfin; exact hfin.2)
  have h8 : pyMul p F p.txDl (.int 8) = .ok (pint (p.txDl.intVal * 8)) := pyMul_int p F _ _ hti rfl
  rw [show V 29 = .ite (.cmp .lt (.call "__mul__" (.cons (.var brKey) (.cons (.var winKey) .nil)))
        (.call "__mul__" (.cons (.var "self.tx_data_length") (.cons (.int 8) .nil)))) raiseVE .nil from rfl,
    guard_exec M env _ (pbool (p.prod.ltInt (p.txDl.intVal * 8))) (p.prod.ltInt (p.txDl.intVal * 8))
      (by simp [eval, evalArgs, hb, hw, ht, nb_mul, M_mul, M_mul_pint, pyMul_bw p F hC hbi hwn hfin, h8, cmp_lt_num, hpn]) rfl]


/-! ### statement 9: `override_receiver_stmin` -/

abbrev ovrKey : String := "self.override_receiver_stmin"

/-- `float(v)` as a value (when it does not overflow) -/
def floatOf : PyVal → PyVal
  | .int i => .float i 1
  | .bool b => .float (if b then 1 else 0) 1
  | v => v

def ovr1 : PStmt := stmtAt (match V 9 with | .ite _ t _ => t | _ => .nil) 0
def ovr3 : PStmt := stmtAt (match V 9 with | .ite _ t _ => t | _ => .nil) 2
def ovr2 : PStmt := .tryCatch (.cons (.assign ovrKey (.call "float" (.cons (.var ovrKey) .nil))) .nil) "OverflowError" raiseVE

theorem s9_eq : V 9 = .ite (.isNotNone (.var ovrKey)) (.cons ovr1 (.cons ovr2 (.cons ovr3 .nil))) .nil := rfl

theorem pyFloat_num (v : PyVal) (hn : isNumber v = true) :
    pyFloat F v = if bigInt F v then .error (.exc .OverflowError) else .ok (pv (floatOf v)) := by
  cases v <;> first | rfl | simp [isNumber] at hn

theorem floatOf_isFloat (v : PyVal) (hn : isNumber v = true) : (floatOf v).isFloat = true := by
  cases v <;> simp_all [isNumber, floatOf, PyVal.isFloat]

theorem isFinite_scaled (v : PyVal) (hf : v.isFloat = true) :
    pyIsFinite F (scaled p v) = .ok (pbool (v.isFinite && p.ovrScaledFinite)) := by
  cases v with
  | float n d =>
    simp only [scaled, PyVal.isFinite, Bool.true_and]
    cases p.ovrScaledFinite
    · simp only [Bool.false_eq_true, if_false]; by_cases h0 : n < 0 <;> simp [h0, pyIsFinite]
    · rfl
  | nan => rfl
  | posInf => rfl
  | negInf => rfl
  | _ => simp [PyVal.isFloat] at hf

theorem ovr1_exec (v : PyVal) (h : env ovrKey = some (pv v)) :
    execStmt M env ovr1 = if isNumber v && !v.isBool then .ok (.next env) else .error (.exc .ValueError) := by
  cases h1 : isNumber v <;> cases h2 : v.isBool <;>
    simp [ovr1, V, stmtAt, Src.TransportLayerLogic_Params_validate, execStmt, execBlock, eval, evalArgs, h, bi_intfloat, bi_bool, h1, h2]

theorem ovr2_step (v : PyVal) (h : env ovrKey = some (pv v)) (hn : isNumber v = true) :
    StepS M K env ovr2 (!bigInt F v) (env.set ovrKey (pv (floatOf v))) := by
  have he : eval M env (.call "float" (.cons (.var ovrKey) .nil)) =
      if bigInt F v then .error (.exc .OverflowError) else .ok (pv (floatOf v)) := by
    simp [eval, evalArgs, h, nb_float, M_float, pyFloat_num F v hn]
  constructor
  · intro hc n hn
    have hn3 : 3 ≤ n := by simp only [K] at hn; omega
    simp only [Bool.not_eq_true'] at hc
    rw [hc] at he
    exact tryCatch_assign_ok M env _ _ _ _ _ he n hn3
  · intro hc n hn
    have hn3 : 3 ≤ n := by simp only [K] at hn; omega
    simp only [Bool.not_eq_false'] at hc
    rw [hc] at he
    refine ⟨env, ?_⟩
    rw [ovr2, tryCatch_assign_ovf M env _ _ _ he n hn3]
    exact raiseVE_exec M env (n - 1) (by omega)

theorem ovr3_exec (fv : PyVal) (h : env ovrKey = some (pv fv)) (hf : fv.isFloat = true) :
    execStmt M env ovr3 =
      if !fv.ltZero && (fv.isFinite && p.ovrScaledFinite) then .ok (.next env) else .error (.exc .ValueError) := by
  have hn : isNumber fv = true := by cases fv <;> simp_all [PyVal.isFloat, isNumber]
  cases hl : fv.ltZero
  · rw [show ovr3 = .ite (.or_ (.cmp .lt (.var ovrKey) (.int 0)) (.not_ (.call "math.isfinite" (.cons (.call "__mul__"
        (.cons (.var ovrKey) (.cons (.call "__float__" (.cons (.strLit "1000000000.0") .nil)) .nil))) .nil)))) raiseVE .nil from rfl,
      guard_exec M env _ (pbool (!(fv.isFinite && p.ovrScaledFinite))) (!(fv.isFinite && p.ovrScaledFinite))
        (by simp [eval, evalArgs, h, cmp_lt_zero, hn, hl, nb_isfinite, M_isfinite, nb_mul, M_mul, nb_lit, M_lit, lit_1e9,
              pyMul_1e9 p F fv hf, isFinite_scaled p F fv hf]) rfl]
    simp
  · rw [show ovr3 = .ite (.or_ (.cmp .lt (.var ovrKey) (.int 0)) (.not_ (.call "math.isfinite" (.cons (.call "__mul__"
        (.cons (.var ovrKey) (.cons (.call "__float__" (.cons (.strLit "1000000000.0") .nil)) .nil))) .nil)))) raiseVE .nil from rfl,
      guard_exec M env _ (pbool true) true (by simp [eval, h, cmp_lt_zero, hn, hl]) rfl]
    simp

/-- the model's clause for `override_receiver_stmin` -/
def ovrOk (p : ParamArgs) : Bool :=
  p.overrideStmin.isNone ||
    ((p.overrideStmin.isInt || p.overrideStmin.isFloat) && !p.overrideStmin.isBool &&
      !p.overrideStmin.ltZero && p.overrideStmin.isFinite && p.ovrScaledFinite)

/-- the object after statement 9: `override_receiver_stmin` normalised to a float -/
def env9 (p : ParamArgs) (env : Env) : Env :=
  if p.overrideStmin.isNone then env else env.set ovrKey (pv (floatOf p.overrideStmin))

theorem ovr_cond (hC : Coherent p F) (hn : p.overrideStmin.isNone = false) :
    (isNumber p.overrideStmin && !p.overrideStmin.isBool &&
      (!bigInt F p.overrideStmin &&
        ((!(floatOf p.overrideStmin).ltZero && ((floatOf p.overrideStmin).isFinite && p.ovrScaledFinite)) && true))) = ovrOk p := by
  have hc := hC.ovr
  unfold ovrOk
  cases hv : p.overrideStmin <;> simp_all [isNumber, PyVal.isBool, PyVal.isInt, PyVal.isFloat, PyVal.isNone, bigInt, floatOf,
    PyVal.ltZero, PyVal.isFinite]
  case int i => cases hb : F.big i <;> simp_all


theorem set_same (env : Env) (k : String) (v : PV) : (env.set k v) k = some v := by simp [Env.set]
theorem set_other (env : Env) (k k' : String) (v : PV) (h : k' ≠ k) : (env.set k v) k' = env k' := by simp [Env.set, h]

/-- statement 9: `if self.override_receiver_stmin is not None: ...` -/
theorem s9_step (hC : Coherent p F) (h : env ovrKey = some (pv p.overrideStmin)) :
    StepS M (K + 4) env (V 9) (ovrOk p) (env9 p env) := by
  rw [s9_eq]
  cases hn : p.overrideStmin.isNone
  · refine StepS.ite (v := pbool true) (b := true) (by simp [eval, h, bne_pnone, hn]) rfl ?_
    have hb : StepB M (K + 3) env (.cons ovr1 (.cons ovr2 (.cons ovr3 .nil))) _ (env.set ovrKey (pv (floatOf p.overrideStmin))) :=
      StepB.cons' (StepS.of_exec K rfl rfl (Nat.le_of_ble_eq_true rfl) (ovr1_exec p F env _ h)) fun h1 => by
        simp only [Bool.and_eq_true] at h1
        exact StepB.cons' (ovr2_step p F env _ h h1.1) fun _ =>
          StepB.cons' (StepS.of_exec K rfl rfl (Nat.le_of_ble_eq_true rfl)
            (ovr3_exec p F _ _ (set_same _ _ _) (floatOf_isFloat _ h1.1))) fun _ => StepB.nil M K _ (by decide)
    simp only [env9, hn, Bool.false_eq_true, if_false, if_true]
    exact hb.congr (ovr_cond p F hC hn)
  · refine StepS.ite (v := pbool false) (b := false) (by simp [eval, h, bne_pnone, hn]) rfl ?_
    simp only [env9, hn, if_true, ovrOk, Bool.true_or, Bool.false_eq_true, if_false]
    exact StepB.nil M _ env (by decide)


/-! ### statements 19-21: `default_target_address_type` -/

theorem tatOfInt_enum (i : Int) :
    tatOfInt i = .sc (.enum "TargetAddressType" (if i = 0 then "Physical" else "Functional")) := by
  unfold tatOfInt tatPhys tatFunc; split <;> rfl

def c19 (p : ParamArgs) (x : Extra) : Bool :=
  x.tatAsMember || (!p.defaultTat.isInt || (p.defaultTat.intVal == 0 || p.defaultTat.intVal == 1))
def c20 (p : ParamArgs) (x : Extra) : Bool := x.tatAsMember || p.defaultTat.isInt
/-- the object after statement 19: `default_target_address_type` normalised to a member -/
def env19 (p : ParamArgs) (x : Extra) (env : Env) : Env :=
  if !x.tatAsMember && p.defaultTat.isInt then env.set tatKey (tatOfInt p.defaultTat.intVal) else env

variable (x : Extra)

theorem s19_step (h : env tatKey = some (tatPres p x)) : StepS M K env (V 19) (c19 p x) (env19 p x env) := by
  cases hm : x.tatAsMember
  · simp only [tatPres, hm, Bool.false_eq_true, if_false] at h
    have := s19_raw p F env _ h
    simp only [c19, env19, hm, Bool.false_or, Bool.not_false, Bool.true_and]
    exact StepS.of_exec K rfl rfl (Nat.le_of_ble_eq_true rfl) this
  · simp only [tatPres, hm, if_true, tatOfInt_enum] at h
    have := s19_member p F env _ _ h
    simp only [c19, env19, hm, Bool.true_or, Bool.not_true, Bool.false_and, Bool.false_eq_true, if_false]
    exact StepS.of_exec K rfl rfl (Nat.le_of_ble_eq_true rfl) (by rw [this]; rfl)

theorem env19_tat (h : env tatKey = some (tatPres p x)) :
    env19 p x env tatKey = some (if c20 p x then tatOfInt p.defaultTat.intVal else pv p.defaultTat) := by
  cases hm : x.tatAsMember <;> cases hi : p.defaultTat.isInt <;> simp [env19, c20, hm, hi, h, tatPres, set_same]

theorem s20_step (h : env tatKey = some (tatPres p x)) :
    StepS M K (env19 p x env) (V 20) (c20 p x) (env19 p x env) := by
  have h2 := s20_exec p F _ _ (env19_tat p env x h)
  have e : isTatPV (if c20 p x then tatOfInt p.defaultTat.intVal else pv p.defaultTat) = c20 p x := by
    cases c20 p x
    · rfl
    · simp only [if_true, tatOfInt_enum]; rfl
  rw [e] at h2
  exact StepS.of_exec K rfl rfl (Nat.le_of_ble_eq_true rfl) h2

theorem s21_step (h : env tatKey = some (tatPres p x)) (h20 : c20 p x = true)
    (hP : env19 p x env "isotp.address.TargetAddressType.Physical" = some tatPhys)
    (hF : env19 p x env "isotp.address.TargetAddressType.Functional" = some tatFunc) :
    StepS M K (env19 p x env) (V 21) true (env19 p x env) := by
  have h1 := env19_tat p env x h
  rw [h20, if_pos rfl] at h1
  have h2 := s21_exec p F _ _ h1 hP hF
  have e : (pvEq (tatOfInt p.defaultTat.intVal) tatPhys || pvEq (tatOfInt p.defaultTat.intVal) tatFunc) = true := by
    unfold tatOfInt; split <;> simp [tatPhys, tatFunc]
  rw [e] at h2
  exact StepS.of_exec K rfl rfl (Nat.le_of_ble_eq_true rfl) h2

/-! ### the attributes nobody writes -/

structure Pres (p : ParamArgs) (x : Extra) (env : Env) : Prop where
  stmin : env "self.stmin" = some (pv p.stmin)
  blocksize : env "self.blocksize" = some (pv p.blocksize)
  tFc : env "self.rx_flowcontrol_timeout" = some (pv p.tFc)
  tCf : env "self.rx_consecutive_frame_timeout" = some (pv p.tCf)
  pad : env "self.tx_padding" = some (pv p.txPadding)
  wftmax : env "self.wftmax" = some (pv p.wftmax)
  txDl : env "self.tx_data_length" = some (pv p.txDl)
  minLen : env "self.tx_data_min_length" = some (pv p.txMinLen)
  mfs : env "self.max_frame_size" = some (pv p.maxFrameSize)
  canFd : env "self.can_fd" = some (pv p.canFd)
  brs : env "self.bitrate_switch" = some (pv p.brs)
  bitrate : env "self.rate_limit_max_bitrate" = some (pv p.rlBitrate)
  window : env "self.rate_limit_window_size" = some (pv p.rlWindow)
  rlEnable : env "self.rate_limit_enable" = some (pv p.rlEnable)
  listen : env "self.listen_mode" = some (pv p.listen)
  blocking : env "self.blocking_send" = some (pv p.blocking)
  logger : env "self.logger_name" = some (x.logger)
  wait : env "self.wait_func" = some (x.waitFunc)
  phys : env "isotp.address.TargetAddressType.Physical" = some (tatPhys)
  func : env "isotp.address.TargetAddressType.Functional" = some (tatFunc)

theorem pres_init : Pres p x (paramsEnv p x) := by constructor <;> rfl

theorem Pres.set {p : ParamArgs} {x : Extra} {env : Env} (h : Pres p x env) (k : String) (v : PV)
    (hk : k = ovrKey ∨ k = tatKey ∨ k = "window_bits_finite") : Pres p x (env.set k v) := by
  cases h
  rcases hk with rfl | rfl | rfl <;> constructor <;> simp [Env.set, ovrKey, tatKey, *]

theorem Pres.env9 {p : ParamArgs} {x : Extra} {env : Env} (h : Pres p x env) : Pres p x (env9 p env) := by
  unfold Params.env9; split
  · exact h
  · exact h.set _ _ (.inl rfl)

theorem Pres.env19 {p : ParamArgs} {x : Extra} {env : Env} (h : Pres p x env) : Pres p x (env19 p x env) := by
  unfold Params.env19; split
  · exact h.set _ _ (.inr (.inl rfl))
  · exact h


/-! ## 6. The whole body -/

theorem num_of_float_or_int (v : PyVal) (h : (v.isFloat || v.isInt) = true) : isNumber v = true := by
  cases v <;> simp_all [PyVal.isFloat, PyVal.isInt, isNumber]

/-- the conjunction of the 35 checks, in source order (the chain of `and`s `validate` is) -/
def srcCond (p : ParamArgs) (F : Facts) (x : Extra) : Bool :=
  p.tFc.isInt && (
  (decide (0 ≤ p.tFc.intVal) && F.fits p.tFc.intVal) && (
  p.tCf.isInt && (
  (decide (0 ≤ p.tCf.intVal) && F.fits p.tCf.intVal) && (
  (p.txPadding.isNone || intIn p.txPadding 0 0xFF) && (
  p.stmin.isInt && (
  (decide (0 ≤ p.stmin.intVal) && decide (p.stmin.intVal ≤ 255)) && (
  p.blocksize.isInt && (
  (decide (0 ≤ p.blocksize.intVal) && decide (p.blocksize.intVal ≤ 255)) && (
  ovrOk p && (
  p.wftmax.isInt && (
  decide (0 ≤ p.wftmax.intVal) && (
  p.txDl.isInt && (
  decide (p.txDl.intVal ∈ [8, 12, 16, 20, 24, 32, 48, 64]) && (
  (p.txMinLen.isNone || (minLenOk p.txMinLen && decide (p.txMinLen.intVal ≤ p.txDl.intVal))) && (
  p.maxFrameSize.isInt && (
  decide (0 ≤ p.maxFrameSize.intVal) && (
  p.canFd.isBool && (
  p.brs.isBool && (
  c19 p x && (
  c20 p x && (
  true && (
  p.rlBitrate.isInt && (
  decide (0 < p.rlBitrate.intVal) && (
  (p.rlWindow.isFloat || p.rlWindow.isInt) && (
  (!p.rlWindow.leZero) && (
  true && (
  finBits p && (
  p.rlEnable.isBool && (
  (!(p.prod.ltInt (p.txDl.intVal * 8))) && (
  p.listen.isBool && (
  p.blocking.isBool && (
  isStrPV x.logger && (
  isCallablePV x.waitFunc && (
  F.waitExc.isNone && (
  true)))))))))))))))))))))))))))))))))))

/-- a starting environment presents `p`: the attributes of `paramsEnv p x`, whatever else it binds -/
structure Presents (p : ParamArgs) (x : Extra) (env : Env) : Prop where
  pres : Pres p x env
  ovr : env ovrKey = some (pv p.overrideStmin)
  tat : env tatKey = some (tatPres p x)

theorem presents_paramsEnv : Presents p x (paramsEnv p x) := ⟨pres_init p x, rfl, rfl⟩

/-- the object (and the one local) a successful `validate()` leaves behind, from the starting environment `env` -/
def finalEnvOf (p : ParamArgs) (x : Extra) (env : Env) : Env :=
  (env19 p x (env9 p env)).set "window_bits_finite" (pbool (finBits p))
/-- ... from `paramsEnv p x` -/
def finalEnv (p : ParamArgs) (x : Extra) : Env := finalEnvOf p x (paramsEnv p x)

theorem env9_tat (h : env tatKey = some (tatPres p x)) : env9 p env tatKey = some (tatPres p x) := by
  unfold env9; split
  · exact h
  · rw [set_other _ _ _ _ (by decide)]; exact h

theorem validate_steps (hC : Coherent p F) (hP : Presents p x env) :
    StepB M 51 env Src.TransportLayerLogic_Params_validate (srcCond p F x) (finalEnvOf p x env) := by
  have H0 : Pres p x env := hP.pres
  have H1 : Pres p x (env9 p env) := H0.env9
  have H2 : Pres p x (env19 p x (env9 p env)) := H1.env19
  have H3 : Pres p x (finalEnvOf p x env) := H2.set _ _ (.inr (.inr rfl))
  have htat := env9_tat p env x hP.tat
  rw [body_eq]
  unfold srcCond finalEnvOf
  exact
    StepB.cons' (notIntG_step M _ _ _ H0.tFc) fun h0 =>
    StepB.cons' (fitsG_step p F _ _ _ H0.tFc h0) fun h1 =>
    StepB.cons' (notIntG_step M _ _ _ H0.tCf) fun h2 =>
    StepB.cons' (fitsG_step p F _ _ _ H0.tCf h2) fun h3 =>
    StepB.cons' (StepS.of_exec K rfl rfl (Nat.le_of_ble_eq_true rfl) (s4_exec M _ _ H0.pad)) fun h4 =>
    StepB.cons' (notIntG_step M _ _ _ H0.stmin) fun h5 =>
    StepB.cons' (rangeG_step M _ _ _ H0.stmin h5) fun h6 =>
    StepB.cons' (notIntG_step M _ _ _ H0.blocksize) fun h7 =>
    StepB.cons' (rangeG_step M _ _ _ H0.blocksize h7) fun h8 =>
    StepB.cons' (s9_step p F _ hC hP.ovr) fun h9 =>
    StepB.cons' (notIntG_step M _ _ _ H1.wftmax) fun h10 =>
    StepB.cons' (ltZeroG_step M _ _ _ H1.wftmax h10) fun h11 =>
    StepB.cons' (notIntG_step M _ _ _ H1.txDl) fun h12 =>
    StepB.cons' (StepS.of_exec K rfl rfl (Nat.le_of_ble_eq_true rfl) (s13_exec M _ _ H1.txDl h12)) fun h13 =>
    StepB.cons' (StepS.of_exec K rfl rfl (Nat.le_of_ble_eq_true rfl) (s14_exec M _ _ _ H1.minLen H1.txDl h12)) fun h14 =>
    StepB.cons' (notIntG_step M _ _ _ H1.mfs) fun h15 =>
    StepB.cons' (ltZeroG_step M _ _ _ H1.mfs h15) fun h16 =>
    StepB.cons' (notBoolG_step M _ _ _ H1.canFd) fun h17 =>
    StepB.cons' (notBoolG_step M _ _ _ H1.brs) fun h18 =>
    StepB.cons' (s19_step p F _ x htat) fun h19 =>
    StepB.cons' (s20_step p F _ x htat) fun h20 =>
    StepB.cons' (s21_step p F _ x htat h20 H2.phys H2.func) fun h21 =>
    StepB.cons' (notIntG_step M _ _ _ H2.bitrate) fun h22 =>
    StepB.cons' (StepS.of_exec K rfl rfl (Nat.le_of_ble_eq_true rfl) (s23_exec M _ _ H2.bitrate h22)) fun h23 =>
    StepB.cons' (StepS.of_exec K rfl rfl (Nat.le_of_ble_eq_true rfl) (s24_exec M _ _ H2.window)) fun h24 =>
    StepB.cons' (StepS.of_exec K rfl rfl (Nat.le_of_ble_eq_true rfl) (s25_exec M _ _ H2.window (num_of_float_or_int _ h24))) fun h25 =>
    StepB.cons' (s26_step p F _ hC H2.bitrate H2.window h22 h24) fun h26 =>
    StepB.cons' (StepS.of_exec K rfl rfl (Nat.le_of_ble_eq_true rfl) (s27_exec M _ _ (set_same _ _ _))) fun h27 =>
    StepB.cons' (notBoolG_step M _ _ _ H3.rlEnable) fun h28 =>
    StepB.cons' (StepS.of_exec K rfl rfl (Nat.le_of_ble_eq_true rfl) (s29_exec p F _ hC H3.bitrate H3.window H3.txDl h22 h24 h27 h12)) fun h29 =>
    StepB.cons' (notBoolG_step M _ _ _ H3.listen) fun h30 =>
    StepB.cons' (notBoolG_step M _ _ _ H3.blocking) fun h31 =>
    StepB.cons' (StepS.of_exec K rfl rfl (Nat.le_of_ble_eq_true rfl) (s32_exec p F _ _ H3.logger)) fun h32 =>
    StepB.cons' (StepS.of_exec K rfl rfl (Nat.le_of_ble_eq_true rfl) (s33_exec p F _ _ H3.wait)) fun h33 =>
    StepB.cons' (StepS.of_exec K rfl rfl (Nat.le_of_ble_eq_true rfl) (s34_exec p F _)) fun h34 =>
    StepB.nil M 16 _ (by decide)


/-- what the source checks beyond the model: the two `_fits_float` calls and the three checks on `logger_name` / `wait_func` -/
def extraOk (p : ParamArgs) (F : Facts) (x : Extra) : Bool :=
  F.fits p.tFc.intVal && F.fits p.tCf.intVal && isStrPV x.logger && isCallablePV x.waitFunc && F.waitExc.isNone

theorem tat_cond (hx : x.tatAsMember = true → p.defaultTat = .int 0 ∨ p.defaultTat = .int 1) :
    (c19 p x && (c20 p x && true)) =
      (p.defaultTat.isInt && (decide (p.defaultTat.intVal = 0) || decide (p.defaultTat.intVal = 1))) := by
  cases hm : x.tatAsMember
  · cases hi : p.defaultTat.isInt
    · simp [c19, c20, hm, hi]
    · by_cases h0 : p.defaultTat.intVal = 0 <;> by_cases h1 : p.defaultTat.intVal = 1 <;> simp [c19, c20, hm, hi, h0, h1]
  · rcases hx hm with h | h <;> simp [c19, c20, hm, h, PyVal.isInt, PyVal.intVal]

theorem not_nan_of_finite (v : PyVal) (h : v.isFinite = true) : (v != .nan) = true := by
  cases v <;> simp_all [PyVal.isFinite]

/-- **the 35 checks of the source = the model's `validateParams`, plus the checks the model has no field for** -/
theorem srcCond_eq (hx : x.tatAsMember = true → p.defaultTat = .int 0 ∨ p.defaultTat = .int 1) :
    srcCond p F x = (validateParams p && extraOk p F x) := by
  have ht := tat_cond p x hx
  have hn := not_nan_of_finite p.rlWindow
  rw [Bool.eq_iff_iff]
  simp only [srcCond, validateParams, extraOk, intGe, intIn, txDlOk, ovrOk, finBits, Bool.and_eq_true, Bool.and_true, Bool.true_and] at ht ⊢
  grind


/-! ## 7. `Params.validate` -/

theorem run2_of_stepB_ok {M' : Meths} {k : Nat} {e e' : Env} {b : PBlock} {c : Bool} (h : StepB M' k e b c e') (hc : c = true)
    (n : Nat) (hn : k ≤ n) : run2 n M' e b = .ok (.ret pnone e') := by
  unfold run2; rw [h.1 hc n hn]
theorem run2_of_stepB_err {M' : Meths} {k : Nat} {e e' : Env} {b : PBlock} {c : Bool} (h : StepB M' k e b c e') (hc : c = false)
    (n : Nat) (hn : k ≤ n) : ∃ e1, run2 n M' e b = .ok (.raised "ValueError" e1) := by
  obtain ⟨e1, h1⟩ := h.2 hc n hn
  exact ⟨e1, by unfold run2; rw [h1]⟩

/-- `params_validate_agrees` from any starting environment that presents `p` (e.g. the one `__init__` leaves, which also binds
    module constants) -/
theorem params_validate_agrees_env (hC : Coherent p F) (hP : Presents p x env)
    (hx : x.tatAsMember = true → p.defaultTat = .int 0 ∨ p.defaultTat = .int 1) (n : Nat) (hn : 51 ≤ n) :
    ((validateParams p && extraOk p F x) = true →
      run2 n M env Src.TransportLayerLogic_Params_validate = .ok (.ret pnone (finalEnvOf p x env))) ∧
    ((validateParams p && extraOk p F x) = false →
      ∃ e, run2 n M env Src.TransportLayerLogic_Params_validate = .ok (.raised "ValueError" e)) := by
  have h := validate_steps p F env x hC hP
  rw [srcCond_eq p F x hx] at h
  exact ⟨fun hc => run2_of_stepB_ok h hc n hn, fun hc => run2_of_stepB_err h hc n hn⟩

/-- **`Params.validate()` against `validateParams`, for every `p`.**

    Running the dumped body on the object presenting `p` (`paramsEnv p x`), with the callees of `paramsMeths p F`, for every fuel `n ≥ 51`:
    * returns `None`, leaving the object `finalEnv p x`, when `validateParams p` holds AND the checks the model has no term for pass
      (`extraOk`: `_fits_float` of the two timeouts, `logger_name` a `str`, `wait_func` callable and not raising);
    * raises `ValueError` otherwise.
    Hypotheses: `Coherent p F` (the model's float facts `prod`, `ovrScaledFinite` are the ones Python computes, see `Coherent`), and,
    when the attribute `default_target_address_type` holds a `TargetAddressType` member rather than a raw value, that `p.defaultTat` is its
    integer value. -/
theorem params_validate_agrees (hC : Coherent p F)
    (hx : x.tatAsMember = true → p.defaultTat = .int 0 ∨ p.defaultTat = .int 1) (n : Nat) (hn : 51 ≤ n) :
    ((validateParams p && extraOk p F x) = true →
      run2 n M (paramsEnv p x) Src.TransportLayerLogic_Params_validate = .ok (.ret pnone (finalEnv p x))) ∧
    ((validateParams p && extraOk p F x) = false →
      ∃ e, run2 n M (paramsEnv p x) Src.TransportLayerLogic_Params_validate = .ok (.raised "ValueError" e)) :=
  params_validate_agrees_env p F _ x hC (presents_paramsEnv p x) hx n hn

/-- the form asked for: when the parts outside the model are well behaved (`extraOk`), `validate()` raises `ValueError` iff
    `validateParams p = false`, and returns `None` otherwise -/
theorem params_validate_agrees_iff (hC : Coherent p F)
    (hx : x.tatAsMember = true → p.defaultTat = .int 0 ∨ p.defaultTat = .int 1) (hE : extraOk p F x = true) (n : Nat) (hn : 51 ≤ n) :
    (validateParams p = true ↔
      run2 n M (paramsEnv p x) Src.TransportLayerLogic_Params_validate = .ok (.ret pnone (finalEnv p x))) ∧
    (validateParams p = false ↔
      ∃ e, run2 n M (paramsEnv p x) Src.TransportLayerLogic_Params_validate = .ok (.raised "ValueError" e)) := by
  have h := params_validate_agrees p F x hC hx n hn
  rw [hE, Bool.and_true] at h
  cases hv : validateParams p
  · obtain ⟨e, he⟩ := h.2 hv
    refine ⟨⟨fun h0 => (by cases h0), fun h1 => ?_⟩, ⟨fun _ => ⟨e, he⟩, fun _ => rfl⟩⟩
    rw [he] at h1; cases h1
  · have h1 := h.1 hv
    refine ⟨⟨fun _ => h1, fun _ => rfl⟩, ⟨fun h0 => (by cases h0), fun h2 => ?_⟩⟩
    obtain ⟨e, he⟩ := h2
    rw [h1] at he; cases he

/-- a `wait_func` that raises: `ValueError`, whatever the parameters -/
theorem params_validate_wait_raises (hC : Coherent p F)
    (hx : x.tatAsMember = true → p.defaultTat = .int 0 ∨ p.defaultTat = .int 1) (ex : PyExc) (hw : F.waitExc = some ex)
    (n : Nat) (hn : 51 ≤ n) :
    ∃ e, run2 n M (paramsEnv p x) Src.TransportLayerLogic_Params_validate = .ok (.raised "ValueError" e) :=
  (params_validate_agrees p F x hC hx n hn).2 (by simp [extraOk, hw])

/-- a timeout that does not fit a float (`_fits_float` false): `ValueError`, whatever the model says -/
theorem params_validate_not_fits (hC : Coherent p F)
    (hx : x.tatAsMember = true → p.defaultTat = .int 0 ∨ p.defaultTat = .int 1)
    (hf : F.fits p.tFc.intVal = false ∨ F.fits p.tCf.intVal = false) (n : Nat) (hn : 51 ≤ n) :
    ∃ e, run2 n M (paramsEnv p x) Src.TransportLayerLogic_Params_validate = .ok (.raised "ValueError" e) :=
  (params_validate_agrees p F x hC hx n hn).2 (by rcases hf with hf | hf <;> simp [extraOk, hf])

/-! what a successful `validate()` leaves behind: every attribute unchanged, except the two normalisations -/

theorem finalEnvOf_unchanged (hP : Presents p x env) : Pres p x (finalEnvOf p x env) :=
  ((hP.pres.env9).env19).set _ _ (.inr (.inr rfl))

theorem finalEnvOf_override (hP : Presents p x env) :
    finalEnvOf p x env ovrKey = some (pv (if p.overrideStmin.isNone then .none else floatOf p.overrideStmin)) := by
  have h := hP.ovr
  unfold finalEnvOf env19 env9
  cases hn : p.overrideStmin.isNone <;> cases hm : (!x.tatAsMember && p.defaultTat.isInt) <;>
    simp [Env.set, ovrKey, tatKey] <;> simp only [ovrKey] at h <;> rw [h]
  all_goals (cases hv : p.overrideStmin <;> simp_all [PyVal.isNone])

theorem finalEnvOf_tat (hP : Presents p x env) (hv : validateParams p = true) :
    finalEnvOf p x env tatKey = some (tatOfInt p.defaultTat.intVal) := by
  have hi : p.defaultTat.isInt = true := by
    simp only [validateParams, Bool.and_eq_true] at hv
    exact hv.1.1.1.1.1.1.1.2.1
  unfold finalEnvOf
  rw [set_other _ _ _ _ (by decide), env19_tat p _ x (env9_tat p env x hP.tat)]
  simp [c20, hi]

theorem finalEnv_unchanged : Pres p x (finalEnv p x) := finalEnvOf_unchanged p _ x (presents_paramsEnv p x)
theorem finalEnv_override :
    finalEnv p x ovrKey = some (pv (if p.overrideStmin.isNone then .none else floatOf p.overrideStmin)) :=
  finalEnvOf_override p _ x (presents_paramsEnv p x)
theorem finalEnv_tat (hv : validateParams p = true) : finalEnv p x tatKey = some (tatOfInt p.defaultTat.intVal) :=
  finalEnvOf_tat p _ x (presents_paramsEnv p x) hv

end withMeths

/-! ### non-vacuity, and the one place where model and source differ -/

/-- well-behaved primitives: every timeout fits a float, no `int` is too large, `wait_func` returns -/
def okFacts : Facts := { fits := fun _ => true, big := fun _ => false }

/-- a non-default configuration the source accepts -/
def pAcc : ParamArgs :=
  { stmin := .int 5, overrideStmin := .int 3, defaultTat := .bool true, rlWindow := .int 2, prod := .int 200000000,
    txDl := .int 64, txMinLen := .int 8, canFd := .bool true, txPadding := .int 0xAA }
/-- a non-default configuration the source rejects (`nan` window) -/
def pRej : ParamArgs := { rlWindow := .nan, prod := .nan, stmin := .int 5 }

theorem pAcc_coherent : Coherent pAcc okFacts := by constructor <;> decide
theorem pRej_coherent : Coherent pRej okFacts := by constructor <;> decide

example : run2 51 (paramsMeths pAcc okFacts) (paramsEnv pAcc {}) Src.TransportLayerLogic_Params_validate =
    .ok (.ret pnone (finalEnv pAcc {})) :=
  (params_validate_agrees pAcc okFacts {} pAcc_coherent (by simp) 51 (Nat.le_refl _)).1 (by decide)
example : finalEnv pAcc {} ovrKey = some (pv (.float 3 1)) := finalEnv_override pAcc {}
example : finalEnv pAcc {} tatKey = some tatFunc := finalEnv_tat pAcc {} (by decide)
example : ∃ e, run2 51 (paramsMeths pRej okFacts) (paramsEnv pRej {}) Src.TransportLayerLogic_Params_validate =
    .ok (.raised "ValueError" e) :=
  (params_validate_agrees pRej okFacts {} pRej_coherent (by simp) 51 (Nat.le_refl _)).2 (by decide)

/-- **Model and source differ on a timeout that does not fit a float** (repair D15 added `_fits_float` to the source; `validateParams`
    has no term for it).  `rx_flowcontrol_timeout = 10**305` (Python: `_fits_float(10**305) = False`): the source raises `ValueError`,
    `validateParams` accepts.  Not a defect of the code: `harness/core.py` hands such a value to the model as `+inf`
    (so `validateParams` sees a non-int and rejects too); the difference is between `validateParams` and the RAW value. -/
def pBig : ParamArgs := { tFc := .int (10 ^ 305) }
def fBig : Facts := { fits := fun i => decide (i < 10 ^ 302), big := fun _ => false }

set_option exponentiation.threshold 512 in
theorem fits_disagreement :
    validateParams pBig = true ∧ Coherent pBig fBig ∧
    ∀ n, 51 ≤ n → ∃ e, run2 n (paramsMeths pBig fBig) (paramsEnv pBig {}) Src.TransportLayerLogic_Params_validate =
      .ok (.raised "ValueError" e) := by
  have hC : Coherent pBig fBig := by constructor <;> decide
  refine ⟨by decide, hC, fun n hn => ?_⟩
  exact params_validate_not_fits pBig fBig {} hC (by simp) (.inl (by decide)) n hn

section withMeths
variable (p : ParamArgs) (F : Facts) (env : Env) (x : Extra)
local notation "M" => paramsMeths p F

/-! ## 8. `Params.__init__` -/

/-- the module-level names `__init__` reads -/
def initEnv : Env := fun k =>
  match k with
  | "isotp.address.TargetAddressType.Physical" => some tatPhys
  | "isotp.address.TargetAddressType.Functional" => some tatFunc
  | "TransportLayer.LOGGER_NAME" => some (.str "isotp")
  | "time.sleep" => some (.meth "time.sleep")
  | _ => none

/-- how the constructed object holds what `ParamArgs` has no field for: `default_target_address_type` is the MEMBER `Physical`
    (presented by the model's default `.int 0`), `logger_name = 'isotp'`, `wait_func = time.sleep` -/
def xInit : Extra := { tatAsMember := true, logger := .str "isotp", waitFunc := .meth "time.sleep" }

/-- the object `__init__` builds, as nested assignments -/
def initResult : Env :=
  (((((((((((((((((((initEnv.set "self.stmin" (pint 0)).set "self.blocksize" (pint 8)).set "self.override_receiver_stmin" pnone).set
    "self.rx_flowcontrol_timeout" (pint 1000)).set "self.rx_consecutive_frame_timeout" (pint 1000)).set "self.tx_padding" pnone).set
    "self.wftmax" (pint 0)).set "self.tx_data_length" (pint 8)).set "self.tx_data_min_length" pnone).set
    "self.max_frame_size" (pint 4095)).set "self.can_fd" (pbool false)).set "self.bitrate_switch" (pbool false)).set
    "self.default_target_address_type" tatPhys).set "self.rate_limit_max_bitrate" (pint 100000000)).set
    "self.rate_limit_window_size" (pv (.float 1 5))).set "self.rate_limit_enable" (pbool false)).set
    "self.listen_mode" (pbool false)).set "self.blocking_send" (pbool false)).set "self.logger_name" (.str "isotp")).set
    "self.wait_func" (.meth "time.sleep")

theorem init_run (F : Facts) :
    runFn (paramsMeths {} F) initEnv Src.TransportLayerLogic_Params_init = .ok (pnone, initResult) := by
  simp [runFn, Src.TransportLayerLogic_Params_init, execBlock, execStmt, eval, evalArgs, nb_lit, M_lit, lit_02, initEnv, Env.set,
    initResult]

/-- the constructed object IS the presentation of the default `ParamArgs` (every attribute; the two module constants aside) -/
theorem initResult_eq (k : String) (h1 : k ≠ "TransportLayer.LOGGER_NAME") (h2 : k ≠ "time.sleep") :
    initResult k = paramsEnv {} xInit k := by
  unfold paramsEnv
  split <;> first | rfl | skip
  have e : initResult k = initEnv k := by simp_all [initResult, Env.set]
  rw [e]; unfold initEnv
  split <;> simp_all


/-- **`Params.__init__` builds exactly the default `ParamArgs`, and the default configuration is accepted by the model.** -/
theorem params_init_defaults (F : Facts) :
    runFn (paramsMeths {} F) initEnv Src.TransportLayerLogic_Params_init = .ok (pnone, initResult) ∧
    (∀ k, k ≠ "TransportLayer.LOGGER_NAME" → k ≠ "time.sleep" → initResult k = paramsEnv {} xInit k) ∧
    validateParams {} = true :=
  ⟨init_run F, initResult_eq, by decide⟩

theorem initResult_presents : Presents {} xInit initResult :=
  ⟨by constructor <;> rfl, rfl, rfl⟩

/-- ... and by the source: `Params().validate()` returns `None` (the timeouts `1000` fit a float, `100000000` is not too large for one,
    `time.sleep(0.001)` returns), leaving every attribute as `__init__` set it -/
theorem params_init_then_validate (F : Facts) (h1 : F.fits 1000 = true) (h2 : F.big 100000000 = false) (h3 : F.waitExc = none)
    (n : Nat) (hn : 51 ≤ n) :
    run2 n (paramsMeths {} F) initResult Src.TransportLayerLogic_Params_validate =
      .ok (.ret pnone (finalEnvOf {} xInit initResult)) ∧
    Pres {} xInit (finalEnvOf {} xInit initResult) ∧
    finalEnvOf {} xInit initResult ovrKey = some pnone ∧
    finalEnvOf {} xInit initResult tatKey = some tatPhys := by
  have hC : Coherent {} F := by
    constructor
    · intro h; cases h
    · intro _; rfl
    · intro _ _ h; rw [show ({} : ParamArgs).rlBitrate.intVal = 100000000 from rfl, h2] at h; cases h
    · intro h; cases h
  have hE : (validateParams {} && extraOk {} F xInit) = true := by
    have : extraOk {} F xInit = true := by
      simp [extraOk, show ({} : ParamArgs).tFc.intVal = 1000 from rfl, show ({} : ParamArgs).tCf.intVal = 1000 from rfl, h1, h3,
        xInit, isStrPV, isCallablePV]
    rw [this]; decide
  exact ⟨(params_validate_agrees_env {} F _ xInit hC initResult_presents (fun _ => .inl rfl) n hn).1 hE,
    finalEnvOf_unchanged {} _ xInit initResult_presents,
    finalEnvOf_override {} _ xInit initResult_presents,
    finalEnvOf_tat {} _ xInit initResult_presents (by decide)⟩


end withMeths

/-! ## 9. `Params.set` -/

theorem nb_emptydict (a : List PV) : evalBuiltin "__emptydict__" a = none := by unfold evalBuiltin; split <;> simp_all
theorem nb_setattr (a : List PV) : evalBuiltin "setattr" a = none := by unfold evalBuiltin; split <;> simp_all
theorem nb_validate (a : List PV) : evalBuiltin "self.validate" a = none := by unfold evalBuiltin; split <;> simp_all

/-- **`Params.set(key, val, validate)` = `setattr(self, key, val)`, then `self.validate()` iff `validate` is truthy.**
    For ANY callees `M` such that `__emptydict__()` (the dumper's rendering of the literal `{}`) is the empty mapping - `key in {}` is then
    false, so the alias lookup never happens - and `setattr` leaves the local `validate` alone (`hpres`; it writes an attribute of `self`).
    `self.validate` is any procedure: `params_validate_agrees` says what the real one does. -/
theorem params_set_agrees (M : Meths) (env : Env) (selfv val vv : PV) (key : String) (b : Bool)
    (hself : env "self" = some selfv) (hkey : env "key" = some (.str key)) (hval : env "val" = some val)
    (hE : ∀ e, M.fn "__emptydict__" [] e = .ok (.list []))
    (hpres : ∀ env1, M.proc "setattr" [selfv, .str key, val] (env.set "param_alias" (.list [])) = .ok env1 →
      env1 "validate" = some vv)
    (hv : truthy vv = .ok b) :
    runFn M env Src.TransportLayerLogic_Params_set =
      (M.proc "setattr" [selfv, .str key, val] (env.set "param_alias" (.list []))) >>= fun env1 =>
        if b then (M.proc "self.validate" [] env1) >>= fun env2 => .ok (pnone, env2) else .ok (pnone, env1) := by
  cases hs : M.proc "setattr" [selfv, .str key, val] (env.set "param_alias" (.list [])) with
  | error e =>
    simp [runFn, Src.TransportLayerLogic_Params_set, execBlock, execStmt, eval, evalArgs, nb_emptydict, hE, nb_setattr, Env.set,
      hself, hkey, hval, hs]
  | ok env1 =>
    have h1 := hpres env1 hs
    cases b <;>
    simp [runFn, Src.TransportLayerLogic_Params_set, execBlock, execStmt, eval, evalArgs, nb_emptydict, hE, nb_setattr, nb_validate,
      Env.set, hself, hkey, hval, hs, h1, hv]
    cases M.proc "self.validate" [] env1 <;> rfl

/-- `setattr` on `self.stmin` only, `self.validate` = `V` -/
def setMethsEx (V : Env → Except PErr Env) : Meths where
  fn name args _ :=
    match name, args with
    | "__emptydict__", [] => .ok (.list [])
    | _, _ => .error (.unsupported ("call " ++ name))
  proc name args env :=
    match name, args with
    | "setattr", [.meth "self", .str "stmin", v] => .ok (env.set "self.stmin" v)
    | "self.validate", [] => V env
    | _, _ => .error (.unsupported ("call " ++ name))

def setEnvEx (validate : Bool) : Env := fun k =>
  match k with
  | "self" => some (.meth "self")
  | "key" => some (.str "stmin")
  | "val" => some (pint 300)
  | "validate" => some (pbool validate)
  | _ => none

/-- `set('stmin', 300)` with a `validate()` that rejects: `ValueError`; `set('stmin', 300, validate=False)`: stored -/
example : runFn (setMethsEx fun _ => .error (.exc .ValueError)) (setEnvEx true) Src.TransportLayerLogic_Params_set =
    .error (.exc .ValueError) := by
  rw [params_set_agrees _ _ (.meth "self") (pint 300) (pbool true) "stmin" true rfl rfl rfl (fun _ => rfl)
    (fun env1 h => by cases h; rfl) rfl]
  rfl
example : runFn (setMethsEx fun _ => .error (.exc .ValueError)) (setEnvEx false) Src.TransportLayerLogic_Params_set =
    .ok (pnone, ((setEnvEx false).set "param_alias" (.list [])).set "self.stmin" (pint 300)) := by
  rw [params_set_agrees _ _ (.meth "self") (pint 300) (pbool false) "stmin" false rfl rfl rfl (fun _ => rfl)
    (fun env1 h => by cases h; rfl) rfl]
  rfl

/-! ## 10. `Params._fits_float` -/

/-- the expression `_fits_float` returns -/
abbrev fitsExpr : PExpr :=
  .call "math.isfinite" (.cons (.call "__mul__" (.cons (.call "__truediv__" (.cons (.call "float" (.cons (.var "value") .nil))
    (.cons (.int 1000) .nil))) (.cons (.call "__float__" (.cons (.strLit "1000000000.0") .nil)) .nil))) .nil)

theorem fits_eq : Src.TransportLayerLogic_Params_p_fits_float =
    .cons (.tryCatch (.cons (.ret fitsExpr) .nil) "OverflowError" (.cons (.ret .ff) .nil)) .nil := rfl

/-- **`_fits_float(value)`** (any callees): the value of `math.isfinite(float(value) / 1000 * 1e9)` when that evaluates,
    `False` when it raises `OverflowError` - this is what `Facts.fits` stands for. -/
theorem fits_float_exec (M : Meths) (env : Env) (n : Nat) (hn : 4 ≤ n) :
    (∀ v, eval M env fitsExpr = .ok v → run2 n M env Src.TransportLayerLogic_Params_p_fits_float = .ok (.ret v env)) ∧
    (eval M env fitsExpr = .error (.exc .OverflowError) →
      run2 n M env Src.TransportLayerLogic_Params_p_fits_float = .ok (.ret (pbool false) env)) := by
  obtain ⟨m, rfl⟩ : ∃ m, n = m + 4 := ⟨n - 4, by omega⟩
  rw [fits_eq]
  constructor
  · intro v h
    unfold run2
    rw [exec2B_cons, exec2S_tryCatch, exec2B_single m M env _ rfl]
    simp only [simple2, execStmt, h, ok_bind, ofFlow]
  · intro h
    unfold run2
    rw [exec2B_cons, exec2S_tryCatch, exec2B_single m M env _ rfl]
    simp only [simple2, execStmt, h, error_bind, ofPErr]
    rfl

/-- a `float()` that always overflows: `_fits_float` returns `False` -/
example : run2 4 { fn := fun _ _ _ => .error (.exc .OverflowError), proc := fun _ _ e => .ok e } (fun _ => some (pint 7))
    Src.TransportLayerLogic_Params_p_fits_float = .ok (.ret (pbool false) (fun _ => some (pint 7))) :=
  (fits_float_exec _ _ 4 (Nat.le_refl _)).2 (by simp [fitsExpr, eval, evalArgs, nb_float])

end Isotp.PyAgree.Params

#print axioms Isotp.PyAgree.Params.params_validate_agrees_env
#print axioms Isotp.PyAgree.Params.params_validate_agrees
#print axioms Isotp.PyAgree.Params.params_validate_agrees_iff
#print axioms Isotp.PyAgree.Params.params_validate_wait_raises
#print axioms Isotp.PyAgree.Params.params_validate_not_fits
#print axioms Isotp.PyAgree.Params.fits_disagreement
#print axioms Isotp.PyAgree.Params.finalEnvOf_unchanged
#print axioms Isotp.PyAgree.Params.finalEnvOf_override
#print axioms Isotp.PyAgree.Params.finalEnvOf_tat
#print axioms Isotp.PyAgree.Params.params_init_defaults
#print axioms Isotp.PyAgree.Params.params_init_then_validate
#print axioms Isotp.PyAgree.Params.params_set_agrees
#print axioms Isotp.PyAgree.Params.fits_float_exec
