import Isotp.Proofs.RxAbort
/-
  Helper lemmas for C11 (abort-robust form), part 2: the message that IS hit by the fault (one frame lost or
  duplicated), with arbitrary gaps (`RxAbort.FeedsA`) — and the whole stream.
-/
namespace Isotp.RxAbort
open Isotp Isotp.State Isotp.Rx Isotp.Compose

/-! ## A. a segmented message with one frame lost / duplicated, idle receiver, arbitrary gaps -/

section hit
variable {g : Spec.TxCfg} {c0 : Cfg} {a0 : Addr} {p : Bytes} {n : Nat}

theorem all_cf (g : Spec.TxCfg) (p pad : Bytes) (n : Nat) :
    ∀ d ∈ cfList g p pad n, ∃ j X, d = Spec.cfOf g.pre j X := fun d hd => mem_cfList g p pad n d hd

/-- One frame of a segmented message lost. Nothing of it is delivered (never a truncated payload). Afterwards the
    receiver is idle — or, only when the LAST Consecutive Frame is the lost one and no abort step occurred, still
    in the session of `p` with everything but the last frame buffered. Detection: a reception error was logged, or
    that session is still open, or (last frame lost only) the reception was ended by `stop_receiving()`. -/
theorem seg_drop_a (hg : Geom g c0 a0 p n) (pad : Bytes) (k : Nat) (hk : k < n + 2) (fs : List (Gap × Bytes))
    (hfs : fs.map (·.2) = dropAt k (segFrames g p pad n)) (bl : Gap) (s s' : State)
    (h : IdleS c0 a0 s) (hf : FeedsA s fs bl s') :
    Adv s s' [] 0 ∧ (IdleS c0 a0 s' ∨ (k = n + 1 ∧ SessS g c0 a0 p n s')) ∧
    (errs s + 1 ≤ errs s' ∨ (k = n + 1 ∧ SessS g c0 a0 p n s') ∨
      (k = n + 1 ∧ (hasStop fs || bl.isStop) = true)) := by
  unfold segFrames at hfs
  match k, hk with
  | 0, _ =>
    rw [dropAt_zero_cons] at hfs
    obtain ⟨h2, a2⟩ := run_idle_a (c0 := c0) g.pre hg.hpre fs (cfs_of_map hfs (all_cf g p pad n)) bl s s' h hf
    have hl : fs.length = n + 1 := by
      have := congrArg List.length hfs
      rwa [List.length_map, length_cfList] at this
    exact ⟨a2.mono 0 (by omega), Or.inl h2, Or.inl (by have := a2.err; omega)⟩
  | j + 1, hj =>
    rw [dropAt_succ_cons] at hfs
    obtain ⟨f0, cs, rfl, hcs⟩ := map_snd_cons hfs
    cases hf with
    | frame he hm hrest =>
      obtain ⟨h1, a1⟩ := any_ff hg (h.env he).ctx _ hm
      have a01 := ((env_facts he).adv.trans a1).mono 0 (by omega)
      by_cases hjn : j < n
      · -- a Consecutive Frame other than the last one
        unfold dropAt at hcs
        rw [cfList_drop g p pad n (j + 1) (by omega)] at hcs
        obtain ⟨c1, c2, rfl, hc1, hc2⟩ := map_snd_append hcs
        obtain ⟨f1, c3, rfl, hc3⟩ := map_snd_cons hc2
        obtain ⟨s2, hf1, hf2⟩ := hrest.split
        obtain ⟨h2, a2⟩ := run_take hg pad j 0 (by omega) c1 (by rw [List.drop_zero]; exact hc1) .quiet _ s2 h1 hf1
        rw [Nat.zero_add] at h2
        cases hf2 with
        | frame he3 hm3 hrest3 =>
          rename_i s3 m3
          have hstep : IdleS c0 a0 (s3.processRx m3).1 ∧ Adv s2 (s3.processRx m3).1 [] 1 := by
            by_cases hq : (quietAll c1 && Gap.quiet.isQuiet) = true ∧ f1.isQuiet = true
            · simp only [hq.1, if_true] at h2
              obtain ⟨h4, a4⟩ := sess_wrong (h2.env_quiet he3 hq.2) m3 _ (j + 1) hg.hpre (hm3.trans rfl) (sn_drop_ne j)
              exact ⟨h4, ((env_facts he3).adv.trans a4).mono 1 (by omega)⟩
            · have hidle : IdleS c0 a0 s3 := by
                by_cases hq1 : (quietAll c1 && Gap.quiet.isQuiet) = true
                · simp only [hq1, if_true] at h2
                  have : f1.isQuiet = false := by
                    cases hfl : f1.isQuiet
                    · rfl
                    · exact absurd ⟨hq1, hfl⟩ hq
                  exact h2.ctx.env_abort he3 this
                · simp only [hq1] at h2
                  exact h2.env he3
              obtain ⟨h4, a4⟩ := idle_cf hidle m3 g.pre _ (j + 1) hg.hpre (hm3.trans rfl)
              exact ⟨h4, ((env_facts he3).adv.trans a4).mono 1 (by omega)⟩
          obtain ⟨h4, a4⟩ := hstep
          obtain ⟨h5, a5⟩ := run_idle_a (c0 := c0) g.pre hg.hpre c3
            (cfs_of_map hc3 (fun d hd => mem_cfList g p pad n d (List.mem_of_mem_drop hd))) bl _ s' h4 hrest3
          have := ((a01.trans a2).trans a4).trans a5
          exact ⟨this.mono 0 (by omega), Or.inl h5, Or.inl (by have := this.err; omega)⟩
      · -- the last Consecutive Frame
        have hjn' : j = n := by omega
        subst hjn'
        unfold dropAt at hcs
        rw [List.drop_eq_nil_of_le (by rw [length_cfList]; omega), List.append_nil] at hcs
        obtain ⟨h2, a2⟩ := run_take hg pad j 0 (by omega) cs (by rw [List.drop_zero]; exact hcs) bl _ s' h1 hrest
        rw [Nat.zero_add] at h2
        have a := a01.trans a2
        refine ⟨a.mono 0 (by omega), ?_, ?_⟩
        · by_cases hq : (quietAll cs && bl.isQuiet) = true
          · simp only [hq, if_true] at h2; exact Or.inr ⟨rfl, h2⟩
          · simp only [hq] at h2; exact Or.inl h2
        · by_cases hq : (quietAll cs && bl.isQuiet) = true
          · simp only [hq, if_true] at h2; exact Or.inr (Or.inl ⟨rfl, h2⟩)
          · rcases not_quiet_cases cs bl (by simpa using hq) with h1' | h1'
            · exact Or.inl (by have := a.err; omega)
            · refine Or.inr (Or.inr ⟨rfl, ?_⟩)
              simp only [hasStop_cons, Bool.or_eq_true] at h1' ⊢
              rcases h1' with h1' | h1'
              · exact Or.inl (Or.inr h1')
              · exact Or.inr h1'

/-- One frame of a segmented message duplicated (the copy next to the original): what is delivered is `p` itself,
    once, or nothing — `[p]` is possible only when the First Frame or the last Consecutive Frame is the doubled
    one (`dupOutcome`); the receiver is idle afterwards. -/
theorem seg_dup_a (hg : Geom g c0 a0 p n) (pad : Bytes) (k : Nat) (hk : k < n + 2) (fs : List (Gap × Bytes))
    (hfs : fs.map (·.2) = dupAt k (segFrames g p pad n)) (bl : Gap) (s s' : State)
    (h : IdleS c0 a0 s) (hf : FeedsA s fs bl s') :
    IdleS c0 a0 s' ∧ ∃ Lp, Lp.Sublist (dupOutcome (n + 2) k p) ∧ Adv s s' Lp 0 := by
  have hsub : ∀ b : Bool, ((if b = true then [p] else []) : List Bytes).Sublist [p] := by
    intro b; cases b <;> simp
  unfold segFrames at hfs
  match k, hk with
  | 0, _ =>
    rw [dupAt_zero_cons] at hfs
    obtain ⟨f0, fs1, rfl, hfs1⟩ := map_snd_cons hfs
    obtain ⟨f1, cs, rfl, hcs⟩ := map_snd_cons hfs1
    cases hf with
    | frame he hm hrest =>
      obtain ⟨h1, a1⟩ := any_ff hg (h.env he).ctx _ hm
      cases hrest with
      | frame he2 hm2 hrest2 =>
        obtain ⟨h2, a2⟩ := any_ff hg (h1.ctx.env he2) _ hm2
        obtain ⟨h3, a3⟩ := run_cfs hg pad 0 (Nat.zero_le _) cs (by rw [List.drop_zero]; exact hcs) bl _ s' h2 hrest2
        refine ⟨h3, _, ?_, (((((env_facts he).adv.trans a1).trans (env_facts he2).adv).trans a2).trans a3).mono 0
          (by omega)⟩
        rw [dupOutcome_first]
        simpa using hsub (quietAll cs)
  | j + 1, hj =>
    rw [dupAt_succ_cons] at hfs
    obtain ⟨f0, cs, rfl, hcs⟩ := map_snd_cons hfs
    cases hf with
    | frame he hm hrest =>
      obtain ⟨h1, a1⟩ := any_ff hg (h.env he).ctx _ hm
      have a01 := ((env_facts he).adv.trans a1).mono 0 (by omega)
      by_cases hjn : j < n
      · unfold dupAt at hcs
        rw [cfList_drop g p pad n j (by omega)] at hcs
        obtain ⟨c1, c2, rfl, hc1, hc2⟩ := map_snd_append hcs
        obtain ⟨f1, c3, rfl, hc3⟩ := map_snd_cons hc2
        obtain ⟨s2, hf1, hf2⟩ := hrest.split
        obtain ⟨h2, a2⟩ := run_take hg pad (j + 1) 0 (by omega) c1 (by rw [List.drop_zero]; exact hc1) .quiet _ s2 h1 hf1
        rw [Nat.zero_add] at h2
        cases hf2 with
        | frame he3 hm3 hrest3 =>
          rename_i s3 m3
          have hstep : IdleS c0 a0 (s3.processRx m3).1 ∧ Adv s2 (s3.processRx m3).1 [] 1 := by
            by_cases hq : (quietAll c1 && Gap.quiet.isQuiet) = true ∧ f1.isQuiet = true
            · simp only [hq.1, if_true] at h2
              obtain ⟨h4, a4⟩ := sess_wrong (h2.env_quiet he3 hq.2) m3 _ j hg.hpre (hm3.trans rfl) (sn_dup_ne j)
              exact ⟨h4, ((env_facts he3).adv.trans a4).mono 1 (by omega)⟩
            · have hidle : IdleS c0 a0 s3 := by
                by_cases hq1 : (quietAll c1 && Gap.quiet.isQuiet) = true
                · simp only [hq1, if_true] at h2
                  have : f1.isQuiet = false := by
                    cases hfl : f1.isQuiet
                    · rfl
                    · exact absurd ⟨hq1, hfl⟩ hq
                  exact h2.ctx.env_abort he3 this
                · simp only [hq1] at h2
                  exact h2.env he3
              obtain ⟨h4, a4⟩ := idle_cf hidle m3 g.pre _ j hg.hpre (hm3.trans rfl)
              exact ⟨h4, ((env_facts he3).adv.trans a4).mono 1 (by omega)⟩
          obtain ⟨h4, a4⟩ := hstep
          obtain ⟨h5, a5⟩ := run_idle_a (c0 := c0) g.pre hg.hpre c3
            (cfs_of_map hc3 (fun d hd => mem_cfList g p pad n d (List.mem_of_mem_drop hd))) bl _ s' h4 hrest3
          exact ⟨h5, [], List.nil_sublist _, (((a01.trans a2).trans a4).trans a5).mono 0 (by omega)⟩
      · have hjn' : j = n := by omega
        subst hjn'
        unfold dupAt at hcs
        rw [List.take_of_length_le (by rw [length_cfList]; omega), cfList_drop g p pad j j (Nat.le_refl _),
          List.drop_eq_nil_of_le (by rw [length_cfList]; omega)] at hcs
        obtain ⟨c1, c2, rfl, hc1, hc2⟩ := map_snd_append hcs
        obtain ⟨f1, c3, rfl, hc3⟩ := map_snd_cons hc2
        have := map_snd_nil hc3
        subst this
        obtain ⟨s2, hf1, hf2⟩ := hrest.split
        obtain ⟨h2, a2⟩ := run_cfs hg pad 0 (Nat.zero_le _) c1 (by rw [List.drop_zero]; exact hc1) .quiet _ s2 h1 hf1
        cases hf2 with
        | frame he3 hm3 hend =>
          cases hend with
          | done he4 =>
            obtain ⟨h4, a4⟩ := idle_cf (h2.env he3) _ g.pre _ j hg.hpre (hm3.trans rfl)
            refine ⟨h4.env he4, _, ?_,
              (((((a01.trans a2).trans (env_facts he3).adv).trans a4).trans (env_facts he4).adv).mono 0 (by omega))⟩
            rw [dupOutcome_last]
            simpa using hsub (quietAll c1)

end hit

/-! ## B. any well-formed message hit by the fault -/

/-- One frame of the message lost: nothing of it is delivered. (Detection for messages of more than one frame as in
    `seg_drop_a`.) -/
theorem msg_drop_a (pre p : Bytes) (fr : List Bytes) (c0 : Cfg) (a0 : Addr) (hw : Spec.WellFormed pre p fr)
    (hpre : pre.length = a0.rx.rxPrefixSize) (hmax : p.length ≤ c0.maxFrameSize) (k : Nat) (hk : k < fr.length)
    (fs : List (Gap × Bytes)) (hfs : fs.map (·.2) = dropAt k fr) (bl : Gap) (s s' : State)
    (h : IdleS c0 a0 s) (hf : FeedsA s fs bl s') :
    Adv s s' [] 0 ∧ Ctx c0 a0 s' ∧
    (2 ≤ fr.length → errs s + 1 ≤ errs s' ∨
      (∃ g n, fr.length = n + 2 ∧ k = n + 1 ∧ SessS g c0 a0 p n s') ∨
      (k + 1 = fr.length ∧ (hasStop fs || bl.isStop) = true)) := by
  rcases wellFormed_cases pre p fr c0 a0 hw hpre hmax with ⟨d, esc, cdl, rdl, rfl, hd, h8⟩ | ⟨g, n, pad, _, hg, rfl⟩
  · have : k = 0 := by simpa using hk
    subst this
    rw [dropAt_zero_cons] at hfs
    have := map_snd_nil hfs
    subst this
    cases hf with
    | done he =>
      exact ⟨(env_facts he).adv.mono 0 (by omega), (h.env he).ctx, fun h2 => by simp at h2⟩
  · rw [length_segFrames] at hk ⊢
    obtain ⟨a, hs, hd⟩ := seg_drop_a hg pad k hk fs hfs bl s s' h hf
    refine ⟨a, ?_, fun _ => ?_⟩
    · rcases hs with hs | ⟨_, hs⟩
      · exact hs.ctx
      · exact hs.ctx
    · rcases hd with hd | ⟨hk', hd⟩ | ⟨hk', hd⟩
      · exact Or.inl hd
      · exact Or.inr (Or.inl ⟨g, n, rfl, hk', hd⟩)
      · exact Or.inr (Or.inr ⟨by omega, hd⟩)

/-- One frame of the message duplicated: delivered is the payload itself — twice for a Single Frame message, once
    or not at all otherwise, and at all only if `dupOutcome` allows it — never anything else; idle afterwards. -/
theorem msg_dup_a (pre p : Bytes) (fr : List Bytes) (c0 : Cfg) (a0 : Addr) (hw : Spec.WellFormed pre p fr)
    (hpre : pre.length = a0.rx.rxPrefixSize) (hmax : p.length ≤ c0.maxFrameSize) (k : Nat) (hk : k < fr.length)
    (fs : List (Gap × Bytes)) (hfs : fs.map (·.2) = dupAt k fr) (bl : Gap) (s s' : State)
    (h : IdleS c0 a0 s) (hf : FeedsA s fs bl s') :
    IdleS c0 a0 s' ∧ ∃ Lp, Lp.Sublist (dupOutcome fr.length k p) ∧ (fr.length = 1 → Lp = [p, p]) ∧ Adv s s' Lp 0 := by
  rcases wellFormed_cases pre p fr c0 a0 hw hpre hmax with ⟨d, esc, cdl, rdl, rfl, hd, h8⟩ | ⟨g, n, pad, _, hg, rfl⟩
  · have : k = 0 := by simpa using hk
    subst this
    rw [dupAt_zero_cons] at hfs
    obtain ⟨f0, fs1, rfl, hfs1⟩ := map_snd_cons hfs
    obtain ⟨f1, fs2, rfl, hfs2⟩ := map_snd_cons hfs1
    have := map_snd_nil hfs2
    subst this
    cases hf with
    | frame he hm hrest =>
      cases hrest with
      | frame he2 hm2 hend =>
        cases hend with
        | done he3 =>
          obtain ⟨h1, a1⟩ := any_sf (p := p) (h.env he).ctx _ pre d esc cdl rdl hpre hm hd h8
          obtain ⟨h2, a2⟩ := any_sf (p := p) (h1.env he2).ctx _ pre d esc cdl rdl hpre hm2 hd h8
          refine ⟨h2.env he3, [p, p], ?_, fun _ => rfl, ?_⟩
          · rw [show ([d] : List Bytes).length = 1 from rfl, dupOutcome_sf]
            exact List.Sublist.refl _
          · have := ((((env_facts he).adv.trans a1).trans (env_facts he2).adv).trans a2).trans (env_facts he3).adv
            exact (this.mono 0 (by omega)).cast (by simp)
  · rw [length_segFrames] at hk ⊢
    obtain ⟨hi, Lp, hL, a⟩ := seg_dup_a hg pad k hk fs hfs bl s s' h hf
    exact ⟨hi, Lp, hL, fun h1 => by omega, a⟩

/-! ## C. the whole stream -/

/-- the fault model of C11: nothing, or ONE frame of the stream lost, or ONE frame doubled (copy next to the
    original) -/
inductive Fault where
  | none
  | drop (k : Nat)
  | dup (k : Nat)
  deriving DecidableEq, Repr

def Fault.apply {α : Type} : Fault → List α → List α
  | .none, l => l
  | .drop k, l => dropAt k l
  | .dup k, l => dupAt k l

/-- the hit frame exists -/
def Fault.inRange : Fault → Nat → Prop
  | .none, _ => True
  | .drop k, len => k < len
  | .dup k, len => k < len

/-- What may be delivered of the messages `ps` (frames `enc p`) when the stream suffers the fault `φ` and the
    environment aborts receptions at will:
    * no fault: a subsequence of `ps`;
    * frame `k` lost — it belongs to message `p`, `ps = A ++ p :: B`: a subsequence of `A`, then a subsequence of `B`
      (`p` itself is never delivered);
    * frame `k` doubled: a subsequence of `A`, then `Lp`, then a subsequence of `B`, where `Lp` is `[p, p]` if `p`
      is a Single Frame message, and otherwise `[p]` or `[]`, `[p]` being possible only when the First Frame or the
      last Consecutive Frame is the doubled one (`Compose.dupOutcome`). -/
def Outcome (enc : Bytes → List Bytes) (ps : List Bytes) : Fault → List Bytes → Prop
  | .none, L => L.Sublist ps
  | .drop k, L => ∃ A p B k' LA LB, ps = A ++ p :: B ∧ k' < (enc p).length ∧ k = (stream enc A).length + k' ∧
      L = LA ++ LB ∧ LA.Sublist A ∧ LB.Sublist B
  | .dup k, L => ∃ A p B k' LA Lp LB, ps = A ++ p :: B ∧ k' < (enc p).length ∧ k = (stream enc A).length + k' ∧
      L = LA ++ Lp ++ LB ∧ LA.Sublist A ∧ LB.Sublist B ∧ Lp.Sublist (dupOutcome (enc p).length k' p) ∧
      ((enc p).length = 1 → Lp = [p, p])

theorem map_snd_append3 {fs : List (Gap × Bytes)} {a b c : List Bytes} (h : fs.map (·.2) = a ++ b ++ c) :
    ∃ fa fb fc, fs = fa ++ fb ++ fc ∧ fa.map (·.2) = a ∧ fb.map (·.2) = b ∧ fc.map (·.2) = c := by
  obtain ⟨fab, fc, rfl, hab, hc⟩ := map_snd_append h
  obtain ⟨fa, fb, rfl, ha, hb⟩ := map_snd_append hab
  exact ⟨fa, fb, fc, rfl, ha, hb, hc⟩

theorem FeedsA.split3 {a b c : List (Gap × Bytes)} {bl : Gap} {s s' : State} (h : FeedsA s (a ++ b ++ c) bl s') :
    ∃ s1 s2, FeedsA s a .quiet s1 ∧ FeedsA s1 b .quiet s2 ∧ FeedsA s2 c bl s' := by
  obtain ⟨s2, h12, h3⟩ := h.split
  obtain ⟨s1, h1, h2⟩ := h12.split
  exact ⟨s1, s2, h1, h2, h3⟩

section stream
variable (pre : Bytes) (enc : Bytes → List Bytes) (c0 : Cfg) (a0 : Addr)

/-- The robust containment theorem, receiver-side core: whatever the fault and wherever the environment aborts,
    what an idle receiver delivers has the shape `Outcome`. -/
theorem faulted_run (hpre : pre.length = a0.rx.rxPrefixSize) (ps : List Bytes)
    (hwf : ∀ p ∈ ps, Spec.WellFormed pre p (enc p)) (hmax : ∀ p ∈ ps, p.length ≤ c0.maxFrameSize)
    (φ : Fault) (hφ : φ.inRange (stream enc ps).length) (fs : List (Gap × Bytes))
    (hfs : fs.map (·.2) = φ.apply (stream enc ps)) (bl : Gap) (s s' : State)
    (h : IdleS c0 a0 s) (hf : FeedsA s fs bl s') :
    ∃ L, Outcome enc ps φ L ∧ Adv s s' L 0 ∧ Ctx c0 a0 s' := by
  cases φ with
  | none =>
    obtain ⟨L, hL, a, hc, _⟩ := msgs_ok pre enc c0 a0 hpre ps hwf hmax fs hfs bl s s' h.ctx hf
    exact ⟨L, hL, a, hc⟩
  | drop k =>
    obtain ⟨A, p, B, k', he, hk', hkk⟩ := stream_locate enc ps k hφ
    subst he
    simp only [Fault.apply] at hfs
    rw [stream_mid, hkk, dropAt_mid _ _ _ _ hk'] at hfs
    obtain ⟨fa, fp, fb, rfl, hfa, hfp, hfb⟩ := map_snd_append3 hfs
    obtain ⟨s1, s2, hf1, hf2, hf3⟩ := hf.split3
    have hp : p ∈ A ++ p :: B := List.mem_append_right _ List.mem_cons_self
    obtain ⟨LA, hLA, a1, hc1, hi1⟩ := msgs_ok pre enc c0 a0 hpre A (fun q hq => hwf q (List.mem_append_left _ hq))
      (fun q hq => hmax q (List.mem_append_left _ hq)) fa hfa .quiet s s1 h.ctx hf1
    obtain ⟨a2, hc2, _⟩ := msg_drop_a pre p (enc p) c0 a0 (hwf p hp) hpre (hmax p hp) k' hk' fp hfp .quiet s1 s2
      (hc1.idle (hi1 (Or.inr h.idle))) hf2
    obtain ⟨LB, hLB, a3, hc3, _⟩ := msgs_ok pre enc c0 a0 hpre B
      (fun q hq => hwf q (List.mem_append_right _ (List.mem_cons_of_mem _ hq)))
      (fun q hq => hmax q (List.mem_append_right _ (List.mem_cons_of_mem _ hq))) fb hfb bl s2 s' hc2 hf3
    refine ⟨LA ++ LB, ⟨A, p, B, k', LA, LB, rfl, hk', hkk, rfl, hLA, hLB⟩, ?_, hc3⟩
    exact (((a1.trans a2).trans a3).mono 0 (by omega)).cast (by simp)
  | dup k =>
    obtain ⟨A, p, B, k', he, hk', hkk⟩ := stream_locate enc ps k hφ
    subst he
    simp only [Fault.apply] at hfs
    rw [stream_mid, hkk, dupAt_mid _ _ _ _ hk'] at hfs
    obtain ⟨fa, fp, fb, rfl, hfa, hfp, hfb⟩ := map_snd_append3 hfs
    obtain ⟨s1, s2, hf1, hf2, hf3⟩ := hf.split3
    have hp : p ∈ A ++ p :: B := List.mem_append_right _ List.mem_cons_self
    obtain ⟨LA, hLA, a1, hc1, hi1⟩ := msgs_ok pre enc c0 a0 hpre A (fun q hq => hwf q (List.mem_append_left _ hq))
      (fun q hq => hmax q (List.mem_append_left _ hq)) fa hfa .quiet s s1 h.ctx hf1
    obtain ⟨hi2, Lp, hLp, hLp1, a2⟩ := msg_dup_a pre p (enc p) c0 a0 (hwf p hp) hpre (hmax p hp) k' hk' fp hfp .quiet
      s1 s2 (hc1.idle (hi1 (Or.inr h.idle))) hf2
    obtain ⟨LB, hLB, a3, hc3, _⟩ := msgs_ok pre enc c0 a0 hpre B
      (fun q hq => hwf q (List.mem_append_right _ (List.mem_cons_of_mem _ hq)))
      (fun q hq => hmax q (List.mem_append_right _ (List.mem_cons_of_mem _ hq))) fb hfb bl s2 s' hi2.ctx hf3
    exact ⟨LA ++ Lp ++ LB, ⟨A, p, B, k', LA, Lp, LB, rfl, hk', hkk, rfl, hLA, hLB, hLp, hLp1⟩,
      ((a1.trans a2).trans a3).mono 0 (by omega), hc3⟩

/-- The sharp form. A message `p` that is not hit (`A` before it, `B` after it, each of these two parts with its own
    possible fault): `p` is delivered — intact, exactly once, at its place between what is delivered of `A` and of
    `B` — if and only if no abort step occurs after its First Frame (`innerQuiet fp`). -/
theorem message_fate (hpre : pre.length = a0.rx.rxPrefixSize) (A B : List Bytes) (p : Bytes)
    (hwf : ∀ q ∈ A ++ p :: B, Spec.WellFormed pre q (enc q)) (hmax : ∀ q ∈ A ++ p :: B, q.length ≤ c0.maxFrameSize)
    (φA φB : Fault) (hφA : φA.inRange (stream enc A).length) (hφB : φB.inRange (stream enc B).length)
    (fa fp fb : List (Gap × Bytes)) (hfa : fa.map (·.2) = φA.apply (stream enc A)) (hfp : fp.map (·.2) = enc p)
    (hfb : fb.map (·.2) = φB.apply (stream enc B)) (bl : Gap) (s s' : State)
    (h : IdleS c0 a0 s) (hf : FeedsA s (fa ++ fp ++ fb) bl s') :
    ∃ LA LB, Outcome enc A φA LA ∧ Outcome enc B φB LB ∧
      Adv s s' (LA ++ (if innerQuiet fp = true then [p] else []) ++ LB) 0 := by
  obtain ⟨s1, s2, hf1, hf2, hf3⟩ := hf.split3
  have hp : p ∈ A ++ p :: B := List.mem_append_right _ List.mem_cons_self
  obtain ⟨LA, hLA, a1, hc1⟩ := faulted_run pre enc c0 a0 hpre A (fun q hq => hwf q (List.mem_append_left _ hq))
    (fun q hq => hmax q (List.mem_append_left _ hq)) φA hφA fa hfa .quiet s s1 h hf1
  obtain ⟨hi2, a2⟩ := msg_ok pre p (enc p) c0 a0 (hwf p hp) hpre (hmax p hp) fp hfp .quiet s1 s2 hc1 hf2
  obtain ⟨LB, hLB, a3, _⟩ := faulted_run pre enc c0 a0 hpre B
    (fun q hq => hwf q (List.mem_append_right _ (List.mem_cons_of_mem _ hq)))
    (fun q hq => hmax q (List.mem_append_right _ (List.mem_cons_of_mem _ hq))) φB hφB fb hfb bl s2 s' hi2 hf3
  exact ⟨LA, LB, hLA, hLB, ((a1.trans a2).trans a3).mono 0 (by omega)⟩

theorem wellFormed_ne_nil (p : Bytes) (fr : List Bytes) (hw : Spec.WellFormed pre p fr)
    (hpre : pre.length = a0.rx.rxPrefixSize) (hmax : p.length ≤ c0.maxFrameSize) : fr ≠ [] := by
  rcases wellFormed_cases pre p fr c0 a0 hw hpre hmax with ⟨d, esc, cdl, rdl, rfl, _, _⟩ | ⟨g, n, pad, _, _, rfl⟩
  · simp
  · simp [segFrames]

/-- Loss detection, whole exchange. A frame of the multi-frame message `p` is lost. When everything has been fed:
    a reception error has been logged; or `p` was the last message, its LAST frame is the lost one and the session
    is still open (then N_Cr is running, see `returns_to_idle`); or the reception was ended by a
    `stop_receiving()` call. -/
theorem loss_detected_a (hpre : pre.length = a0.rx.rxPrefixSize) (A B : List Bytes) (p : Bytes)
    (hwf : ∀ q ∈ A ++ p :: B, Spec.WellFormed pre q (enc q)) (hmax : ∀ q ∈ A ++ p :: B, q.length ≤ c0.maxFrameSize)
    (k' : Nat) (hk' : k' < (enc p).length) (hmulti : 2 ≤ (enc p).length)
    (fs : List (Gap × Bytes)) (hfs : fs.map (·.2) = stream enc A ++ dropAt k' (enc p) ++ stream enc B)
    (bl : Gap) (s s' : State) (h : IdleS c0 a0 s) (hf : FeedsA s fs bl s') :
    errs s + 1 ≤ errs s' ∨
    (B = [] ∧ ∃ g n, (enc p).length = n + 2 ∧ k' = n + 1 ∧ SessS g c0 a0 p n s') ∨
    (hasStop fs || bl.isStop) = true := by
  obtain ⟨fa, fp, fb, rfl, hfa, hfp, hfb⟩ := map_snd_append3 hfs
  obtain ⟨s1, s2, hf1, hf2, hf3⟩ := hf.split3
  have hp : p ∈ A ++ p :: B := List.mem_append_right _ List.mem_cons_self
  obtain ⟨LA, _, a1, hc1, hi1⟩ := msgs_ok pre enc c0 a0 hpre A (fun q hq => hwf q (List.mem_append_left _ hq))
    (fun q hq => hmax q (List.mem_append_left _ hq)) fa hfa .quiet s s1 h.ctx hf1
  obtain ⟨a2, hc2, hd⟩ := msg_drop_a pre p (enc p) c0 a0 (hwf p hp) hpre (hmax p hp) k' hk' fp hfp .quiet s1 s2
    (hc1.idle (hi1 (Or.inr h.idle))) hf2
  have e1 := a1.err
  have e2 := a2.err
  have hwfB : ∀ q ∈ B, Spec.WellFormed pre q (enc q) :=
    fun q hq => hwf q (List.mem_append_right _ (List.mem_cons_of_mem _ hq))
  have hmaxB : ∀ q ∈ B, q.length ≤ c0.maxFrameSize :=
    fun q hq => hmax q (List.mem_append_right _ (List.mem_cons_of_mem _ hq))
  obtain ⟨LB, _, a3, _, _⟩ := msgs_ok pre enc c0 a0 hpre B hwfB hmaxB fb hfb bl s2 s' hc2 hf3
  simp only [hasStop_append]
  rcases hd hmulti with hd | ⟨g, n, hl, hk, hsess⟩ | ⟨_, hd⟩
  · exact Or.inl (by have := a3.err; omega)
  · -- the session of `p` is open after its frames
    cases B with
    | nil =>
      have := map_snd_nil (by simpa using hfb)
      subst this
      cases hf3 with
      | done he =>
        rcases Gap.cases3 bl with hq | hq | hq
        · exact Or.inr (Or.inl ⟨rfl, g, n, hl, hk, hsess.env_quiet he hq⟩)
        · exact Or.inr (Or.inr (by simp [hq]))
        · exact Or.inl (by have := (env_facts he).adv.err; omega)
    | cons q B' =>
      rw [stream_cons] at hfb
      obtain ⟨fq, fr, rfl, hfq, hfr⟩ := map_snd_append hfb
      obtain ⟨s3, hf4, hf5⟩ := hf3.split
      have hq : q ∈ q :: B' := List.mem_cons_self
      obtain ⟨hi3, a4⟩ := msg_ok pre q (enc q) c0 a0 (hwfB q hq) hpre (hmaxB q hq) fq hfq .quiet s2 s3 hc2 hf4
      obtain ⟨_, _, a5, _, _⟩ := msgs_ok pre enc c0 a0 hpre B' (fun r hr => hwfB r (List.mem_cons_of_mem _ hr))
        (fun r hr => hmaxB r (List.mem_cons_of_mem _ hr)) fr hfr bl s3 s' hi3.ctx hf5
      have hne := wellFormed_ne_nil pre c0 a0 q (enc q) (hwfB q hq) hpre (hmaxB q hq)
      cases fq with
      | nil => rw [← hfq] at hne; exact absurd rfl hne
      | cons x fq' =>
        obtain ⟨f, d⟩ := x
        have hw2 : s2.rxState = .waitCf := hsess.sess.state
        rcases Gap.cases3 f with hfq' | hfq' | hfq'
        · have := a4.err
          simp only [firstErr, hfq', hw2, and_self, if_true] at this
          exact Or.inl (by have := a5.err; omega)
        · exact Or.inr (Or.inr (by simp [hfq']))
        · have := a4.err
          simp only [firstErr, hfq'] at this
          exact Or.inl (by have := a5.err; omega)
  · exact Or.inr (Or.inr (by
      simp only [Bool.or_eq_true] at hd ⊢
      rcases hd with hd | hd
      · exact Or.inl (Or.inl (Or.inr hd))
      · simp [Gap.isStop] at hd))

end stream

/-! ## D. consequences of `Outcome` -/

theorem outcome_mem (enc : Bytes → List Bytes) (ps : List Bytes) (φ : Fault) (L : List Bytes)
    (h : Outcome enc ps φ L) : ∀ q ∈ L, q ∈ ps := by
  intro q hq
  cases φ with
  | none => exact h.subset hq
  | drop k =>
    obtain ⟨A, p, B, k', LA, LB, rfl, _, _, rfl, hA, hB⟩ := h
    rcases List.mem_append.mp hq with hq | hq
    · exact List.mem_append_left _ (hA.subset hq)
    · exact List.mem_append_right _ (List.mem_cons_of_mem _ (hB.subset hq))
  | dup k =>
    obtain ⟨A, p, B, k', LA, Lp, LB, rfl, _, _, rfl, hA, hB, hp, _⟩ := h
    rcases List.mem_append.mp hq with hq | hq
    · rcases List.mem_append.mp hq with hq | hq
      · exact List.mem_append_left _ (hA.subset hq)
      · have := hp.subset hq
        rcases dupOutcome_cases (enc p).length k' p with h0 | h1 | ⟨h2, _⟩
        · rw [h0] at this; cases this
        · rw [h1] at this; simp at this; subst this; exact List.mem_append_right _ List.mem_cons_self
        · rw [h2] at this; simp at this; subst this; exact List.mem_append_right _ List.mem_cons_self
    · exact List.mem_append_right _ (List.mem_cons_of_mem _ (hB.subset hq))

/-- `ps` with the message number `i` doubled -/
def dupMsg (ps : List Bytes) (i : Nat) : List Bytes := dupAt i ps

/-- in every case the deliveries are a subsequence of `ps`, or — duplication hitting a Single Frame message `p`
    only — of `ps` with `p` doubled -/
theorem outcome_sublist (enc : Bytes → List Bytes) (ps : List Bytes) (φ : Fault) (L : List Bytes)
    (h : Outcome enc ps φ L) :
    L.Sublist ps ∨ ∃ A p B k, φ = .dup k ∧ ps = A ++ p :: B ∧ (enc p).length = 1 ∧ L.Sublist (A ++ [p, p] ++ B) := by
  cases φ with
  | none => exact Or.inl h
  | drop k =>
    obtain ⟨A, p, B, k', LA, LB, rfl, _, _, rfl, hA, hB⟩ := h
    exact Or.inl (List.Sublist.append hA (hB.trans (List.sublist_cons_self p B)))
  | dup k =>
    obtain ⟨A, p, B, k', LA, Lp, LB, rfl, _, _, rfl, hA, hB, hp, _⟩ := h
    rcases dupOutcome_cases (enc p).length k' p with h0 | h1 | ⟨h2, hl⟩
    · rw [h0] at hp
      have : Lp = [] := List.eq_nil_of_sublist_nil hp
      subst this
      left
      simpa using List.Sublist.append hA (hB.trans (List.sublist_cons_self p B))
    · rw [h1] at hp
      left
      have := List.Sublist.append (List.Sublist.append hA hp) hB
      simpa using this
    · rw [h2] at hp
      right
      exact ⟨A, p, B, k, rfl, rfl, hl, List.Sublist.append (List.Sublist.append hA hp) hB⟩

end Isotp.RxAbort
