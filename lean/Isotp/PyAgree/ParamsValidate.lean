import Isotp.PyAgree.EvalLemmas
import Isotp.PyAgree.Exec2Bridge
import Isotp.Params
/-!
  `TransportLayerLogic.Params.validate / __init__ / set / _fits_float` (interpreted source, `Src.TransportLayerLogic_Params_*`)
  against the model `validateParams` (Isotp/Params.lean), for EVERY `p : ParamArgs` (wrong types, `None`, bools, negative ints,
  floats, nan / inf included).

  `validate` contains two `try ... except OverflowError` (`tryCatch`), so its meaning is given by the second semantics
  (`run2` / `exec2B` of Isotp/Py/Exec2.lean, fuel `n`); every statement without a `tryCatch` is proved in the first semantics
  (`execStmt`) and carried over with the bridge theorems of Exec2Bridge.lean.
-/
namespace Isotp.PyAgree.Params
open Isotp Isotp.Py

/-! ## 1. How a `Params` object looks to the interpreter -/

/-- a Python value of the model, as a value of the interpreter -/
abbrev pv (v : PyVal) : PV := .sc (.py v)

def tatPhys : PV := .sc (.enum "TargetAddressType" "Physical")
def tatFunc : PV := .sc (.enum "TargetAddressType" "Functional")
/-- `isotp.TargetAddressType(i)` for `i ∈ {0, 1}` -/
def tatOfInt (i : Int) : PV := if i = 0 then tatPhys else tatFunc

/-- The attributes of a `Params` object that `ParamArgs` has no field for, and how `default_target_address_type` is held. -/
structure Extra where
  /-- `false`: the attribute `default_target_address_type` holds the raw Python value `p.defaultTat` (what `set()` stored);
      `true`: it holds the `TargetAddressType` MEMBER whose value is `p.defaultTat` (what `__init__` stores, and what `validate`
      leaves behind); `ParamArgs` presents a member by its integer value (its default `.int 0` stands for `Physical`). -/
  tatAsMember : Bool := false
  /-- `self.logger_name` -/
  logger : PV := .str "isotp"
  /-- `self.wait_func` -/
  waitFunc : PV := .meth "time.sleep"

def tatPres (p : ParamArgs) (x : Extra) : PV :=
  if x.tatAsMember then tatOfInt p.defaultTat.intVal else pv p.defaultTat

/-- the object (`self.*`) and the two module constants the body reads -/
def paramsEnv (p : ParamArgs) (x : Extra) : Env := fun k =>
  match k with
  | "self.stmin" => some (pv p.stmin)
  | "self.blocksize" => some (pv p.blocksize)
  | "self.override_receiver_stmin" => some (pv p.overrideStmin)
  | "self.rx_flowcontrol_timeout" => some (pv p.tFc)
  | "self.rx_consecutive_frame_timeout" => some (pv p.tCf)
  | "self.tx_padding" => some (pv p.txPadding)
  | "self.wftmax" => some (pv p.wftmax)
  | "self.tx_data_length" => some (pv p.txDl)
  | "self.tx_data_min_length" => some (pv p.txMinLen)
  | "self.max_frame_size" => some (pv p.maxFrameSize)
  | "self.can_fd" => some (pv p.canFd)
  | "self.bitrate_switch" => some (pv p.brs)
  | "self.default_target_address_type" => some (tatPres p x)
  | "self.rate_limit_max_bitrate" => some (pv p.rlBitrate)
  | "self.rate_limit_window_size" => some (pv p.rlWindow)
  | "self.rate_limit_enable" => some (pv p.rlEnable)
  | "self.listen_mode" => some (pv p.listen)
  | "self.blocking_send" => some (pv p.blocking)
  | "self.logger_name" => some x.logger
  | "self.wait_func" => some x.waitFunc
  | "isotp.address.TargetAddressType.Physical" => some tatPhys
  | "isotp.address.TargetAddressType.Functional" => some tatFunc
  | _ => none

/-! ## 2. The primitives the source calls -/

/-- What Python computes and the model does not: -/
structure Facts where
  /-- `Params._fits_float(i)` for an `int` `i` (`math.isfinite(float(i) / 1000 * 1e9)`, `False` on `OverflowError`) -/
  fits : Int → Bool
  /-- the `int` `i` is too large to be converted to a float: `float(i)`, `math.isfinite(i)` and `i * <float>` raise `OverflowError`
      (CPython: `|i| ≥ 2**1024 - 2**970`) -/
  big : Int → Bool
  /-- `none`: `self.wait_func(0.001)` returns; `some e`: it raises the exception `e` -/
  waitExc : Option PyExc := none

/-- the float literal `1e9` (exact) -/
def lit1e9 : PyVal := .float 1000000000 1

/-- `float(v)` -/
def pyFloat (F : Facts) : PyVal → Except PErr PV
  | .int i => if F.big i then .error (.exc .OverflowError) else .ok (pv (.float i 1))
  | .bool b => .ok (pv (.float (if b then 1 else 0) 1))
  | .float n d => .ok (pv (.float n d))
  | .nan => .ok (pv .nan)
  | .posInf => .ok (pv .posInf)
  | .negInf => .ok (pv .negInf)
  | _ => .error (.exc .TypeError)

/-- `math.isfinite(v)` -/
def pyIsFinite (F : Facts) : PyVal → Except PErr PV
  | .int i => if F.big i then .error (.exc .OverflowError) else .ok (pbool true)
  | .bool _ => .ok (pbool true)
  | .float _ _ => .ok (pbool true)
  | .nan => .ok (pbool false)
  | .posInf => .ok (pbool false)
  | .negInf => .ok (pbool false)
  | _ => .error (.exc .TypeError)

/-- `x * 1e9` for a float `x` -/
def scaled (p : ParamArgs) : PyVal → PyVal
  | .float n d => if p.ovrScaledFinite then .float (n * 1000000000) d else if n < 0 then .negInf else .posInf
  | v => v

/-- `a * b` -/
def pyMul (p : ParamArgs) (F : Facts) (a b : PyVal) : Except PErr PV :=
  if a.isInt && b.isInt then .ok (pint (a.intVal * b.intVal))
  else if a.isFloat && b == lit1e9 then .ok (pv (scaled p a))
  else if a.isInt && b.isFloat && a == p.rlBitrate && b == p.rlWindow then
    (if F.big a.intVal then .error (.exc .OverflowError) else .ok (pv p.prod))
  else .error (.unsupported "__mul__: a float product the model has no fact for")

def pyFloatLit : String → Except PErr PV
  | "1000000000.0" => .ok (pv lit1e9)
  | "0.001" => .ok (pv (.float 1 1000))
  | "0.2" => .ok (pv (.float 1 5))
  | _ => .error (.unsupported "float literal")

def isStrPV : PV → Bool
  | .str _ => true
  | .sc (.py (.str _)) => true
  | _ => false
def isTatPV : PV → Bool
  | .sc (.enum "TargetAddressType" _) => true
  | _ => false
def isCallablePV : PV → Bool
  | .meth _ => true
  | _ => false

/-- `isotp.TargetAddressType(v)` -/
def pyTat (v : PyVal) : Except PErr PV :=
  if v.isInt && v.intVal == 0 then .ok tatPhys
  else if v.isInt && v.intVal == 1 then .ok tatFunc
  else .error (.exc .ValueError)

/-- **The callees of `Params.validate`, and exactly what each is assumed to do.**
  (`isinstance_int`, `isinstance_bool`, `isinstance_float`, `isinstance_int_float` are builtins of the interpreter
  (`evalBuiltin`, Ast.lean), not assumptions of this file: `isinstance(v, int)` is true for `int` AND `bool` values, as in Python,
  `isinstance(v, bool)` for `bool` only, `isinstance(v, float)` for finite floats, nan, ±inf, `isinstance(v, (int, float))` for all of these.)

  * `float(v)` (`pyFloat`): an `int` `i` gives the float presented as the rational `i/1` (Python rounds `i` to 53 bits; `validate`
    only reads the sign of the result and hands it to `* 1e9`), or raises `OverflowError` when `F.big i`; a `bool` gives `0.0` / `1.0`;
    a float (finite, nan, ±inf) is returned unchanged; anything else raises `TypeError`.
  * `math.isfinite(v)` (`pyIsFinite`): `True` for `bool`, finite floats and `int`s that are not `F.big`; `OverflowError` for an `int` that is
    `F.big`; `False` for nan, ±inf; `TypeError` for a non-number.
  * `__mul__(a, b)`, i.e. `a * b` (`pyMul`):
      - both `int` / `bool`: the exact integer product (the same as the interpreter's own `*`);
      - `a` a float and `b` the literal `1e9`: nan, ±inf are returned unchanged (IEEE), a finite `a = n/d` gives a finite float
        (presented as `n*10^9/d`; only `math.isfinite` is applied to it) if `p.ovrScaledFinite`, an infinity otherwise:
        THE MODEL'S FACT `ovrScaledFinite = math.isfinite(override_receiver_stmin * 1e9)`;
      - `a = rate_limit_max_bitrate` an `int` and `b = rate_limit_window_size` a float: `OverflowError` if `F.big a`, else `p.prod`:
        THE MODEL'S FACT `prod = rate_limit_max_bitrate * rate_limit_window_size`;
      - any other product with a float operand: outside the subset (interpreter error; `validate` evaluates none).
  * `__float__(s)`: the float literal `s`: `"1000000000.0"` is the float `10^9` (exact); `"0.2"` is presented as the model's default
    `rate_limit_window_size = .float 1 5` (the exact binary double is `3602879701896397 / 2^54`; `validate` reads only its sign, and its
    product with the bitrate through `p.prod`); `"0.001"` as `1/1000` (only handed to `wait_func`).
  * `self._fits_float(v)`: `F.fits i` for an `int` / `bool` of value `i` (`TypeError` otherwise; never called on a non-int).
  * `isinstance_str(v)`: `v` is a string; `isinstance_TargetAddressType(v)`: `v` is a member of `TargetAddressType`;
    `callable(v)`: `v` is a function / bound method (`PV.meth`).
  * `isotp.TargetAddressType(v)` (`pyTat`): the member of value `v` for an `int` / `bool` equal to `0` / `1`, `ValueError` otherwise.
  * `self.wait_func(0.001)` (a statement): returns without touching the `Params` object when `F.waitExc = none`,
    raises the exception `e` when `F.waitExc = some e` (only classes derived from `Exception`: `PyExc` has no other).
  * `__caught__()`: the exception object bound by `except Exception as e` (opaque). -/
def paramsMeths (p : ParamArgs) (F : Facts) : Meths where
  fn name args _ :=
    match name, args with
    | "float", [.sc (.py v)] => pyFloat F v
    | "math.isfinite", [.sc (.py v)] => pyIsFinite F v
    | "__mul__", [.sc (.py a), .sc (.py b)] => pyMul p F a b
    | "__float__", [.str s] => pyFloatLit s
    | "self._fits_float", [.sc (.py v)] => if v.isInt then .ok (pbool (F.fits v.intVal)) else .error (.exc .TypeError)
    | "isinstance_str", [v] => .ok (pbool (isStrPV v))
    | "isinstance_TargetAddressType", [v] => .ok (pbool (isTatPV v))
    | "callable", [v] => .ok (pbool (isCallablePV v))
    | "isotp.TargetAddressType", [.sc (.py v)] => pyTat v
    | "__caught__", [] => .ok (.meth "exception")
    | _, _ => .error (.unsupported ("call " ++ name))
  proc name args env :=
    match name, args with
    | "self.wait_func", [_] => (match F.waitExc with | none => .ok env | some e => .error (.exc e))
    | _, _ => .error (.unsupported ("call " ++ name))

section methLemmas
variable (p : ParamArgs) (F : Facts) (env : Env)
theorem M_float (v : PyVal) : (paramsMeths p F).fn "float" [pv v] env = pyFloat F v := rfl
theorem M_isfinite (v : PyVal) : (paramsMeths p F).fn "math.isfinite" [pv v] env = pyIsFinite F v := rfl
theorem M_mul (a b : PyVal) : (paramsMeths p F).fn "__mul__" [pv a, pv b] env = pyMul p F a b := rfl
theorem M_mul_pint (a : PyVal) (k : Int) : (paramsMeths p F).fn "__mul__" [pv a, pint k] env = pyMul p F a (.int k) := rfl
theorem M_lit (s : String) : (paramsMeths p F).fn "__float__" [.str s] env = pyFloatLit s := rfl
theorem M_fits (v : PyVal) : (paramsMeths p F).fn "self._fits_float" [pv v] env =
    if v.isInt then .ok (pbool (F.fits v.intVal)) else .error (.exc .TypeError) := rfl
theorem M_isStr (v : PV) : (paramsMeths p F).fn "isinstance_str" [v] env = .ok (pbool (isStrPV v)) := rfl
theorem M_isTat (v : PV) : (paramsMeths p F).fn "isinstance_TargetAddressType" [v] env = .ok (pbool (isTatPV v)) := rfl
theorem M_callable (v : PV) : (paramsMeths p F).fn "callable" [v] env = .ok (pbool (isCallablePV v)) := rfl
theorem M_tat (v : PyVal) : (paramsMeths p F).fn "isotp.TargetAddressType" [pv v] env = pyTat v := rfl
theorem M_caught : (paramsMeths p F).fn "__caught__" [] env = .ok (.meth "exception") := rfl
theorem M_wait (v : PV) : (paramsMeths p F).proc "self.wait_func" [v] env =
    (match F.waitExc with | none => .ok env | some e => .error (.exc e)) := rfl
theorem lit_1e9 : pyFloatLit "1000000000.0" = .ok (pv lit1e9) := rfl
theorem lit_001 : pyFloatLit "0.001" = .ok (pv (.float 1 1000)) := rfl
theorem lit_02 : pyFloatLit "0.2" = .ok (pv (.float 1 5)) := rfl
end methLemmas

/-- the names that are not builtins of the interpreter go to `Meths` -/
theorem nb_float (a : List PV) : evalBuiltin "float" a = none := by unfold evalBuiltin; split <;> simp_all
theorem nb_isfinite (a : List PV) : evalBuiltin "math.isfinite" a = none := by unfold evalBuiltin; split <;> simp_all
theorem nb_mul (a : List PV) : evalBuiltin "__mul__" a = none := by unfold evalBuiltin; split <;> simp_all
theorem nb_lit (a : List PV) : evalBuiltin "__float__" a = none := by unfold evalBuiltin; split <;> simp_all
theorem nb_fits (a : List PV) : evalBuiltin "self._fits_float" a = none := by unfold evalBuiltin; split <;> simp_all
theorem nb_isStr (a : List PV) : evalBuiltin "isinstance_str" a = none := by unfold evalBuiltin; split <;> simp_all
theorem nb_isTat (a : List PV) : evalBuiltin "isinstance_TargetAddressType" a = none := by unfold evalBuiltin; split <;> simp_all
theorem nb_callable (a : List PV) : evalBuiltin "callable" a = none := by unfold evalBuiltin; split <;> simp_all
theorem nb_tat (a : List PV) : evalBuiltin "isotp.TargetAddressType" a = none := by unfold evalBuiltin; split <;> simp_all
theorem nb_caught (a : List PV) : evalBuiltin "__caught__" a = none := by unfold evalBuiltin; split <;> simp_all
theorem nb_wait (a : List PV) : evalBuiltin "self.wait_func" a = none := by unfold evalBuiltin; split <;> simp_all

end Isotp.PyAgree.Params
