import Isotp.Py.Exec2
import Isotp.PyAgree.EvalLemmas
import Isotp.PyAgree.Exec2Bridge
import Isotp.Process
/-!
  The small functions of `TransportLayerLogic` (isotp/protocol.py) that contain a loop or a typed handler, in the SECOND (fuelled) semantics
  `run2` of `Isotp/Py/Exec2.lean`, FOR ALL STATES, against the model (`Isotp/Process.lean`):

  * `recv`            (`try: return self.rx_queue.get(block=, timeout=)  except queue.Empty: return None`)   = `State.recv`
  * `clear_rx_queue`  (`while not self.rx_queue.empty(): self.rx_queue.get_nowait()`)                        = `{ s with rxQueue := [] }`
  * `clear_tx_queue`  (`while not self.tx_queue.empty(): self.tx_queue.get_nowait().complete(False)`)       = `State.clearTxQueue`
  * `reset`           (five calls)                                                                           = `State.reset`

  The two `queue.Queue` objects and the completion history are HISTORY KEYS of the environment (same convention as LayerRx / LayerTxHelpers):
    `#rx_queue` ↦ `.list (payloadsScs s.rxQueue)`   every payload as its length followed by its bytes, all in one list of scalars
    `#tx_queue` ↦ `.list (reqIds s.txQueue)`        the ids of the queued `SendRequest`s
    `#done`     ↦ `.list (qDoneHist s.log)`         the `(id, success)` pairs `SendRequest.complete` was called with, oldest first
  and the `queue.Queue` primitives are the `Meths` `queueMeths`, which only look at / change these keys (they do not depend on a model state).
-/
namespace Isotp.PyAgree
open Isotp Isotp.Py

/-! ## 0. infrastructure (local copies; the sibling leaves are being written concurrently) -/
namespace Q

theorem set_get (env : Env) (k : String) (v : PV) (k' : String) :
    (env.set k v) k' = if k' = k then some v else env k' := rfl

theorem set_set (env : Env) (k : String) (v w : PV) : (env.set k v).set k w = env.set k w := by
  funext k'; simp only [Env.set]; split <;> rfl

theorem set_same (env : Env) (k : String) (v : PV) (h : env k = some v) : env.set k v = env := by
  funext k'; simp only [Env.set]; split
  · next hk => rw [hk, h]
  · rfl

/-- the names the interpreter treats as builtins; every other call goes to `Meths` -/
def builtinNames : List String :=
  ["len", "int", "bool", "min", "max", "bytes", "isinstance_int", "isinstance_bool", "isinstance_float", "isinstance_int_float"]

theorem evalBuiltin_none (fn : String) (args : List PV) (h : fn ∉ builtinNames) : evalBuiltin fn args = none := by
  simp only [builtinNames, List.mem_cons, List.not_mem_nil, or_false, not_or] at h
  unfold evalBuiltin; split <;> simp_all

/-- a call statement without arguments -/
theorem proc0 (M : Meths) (env env' : Env) (fn : String) (hb : fn ∉ builtinNames) (hp : M.proc fn [] env = .ok env') :
    execStmt M env (.expr (.call fn .nil)) = .ok (.next env') := by
  simp [execStmt, evalArgs, evalBuiltin_none fn _ hb, hp]

/-- a call statement with one argument -/
theorem proc1 (M : Meths) (env env' : Env) (fn : String) (a : PExpr) (v : PV) (hb : fn ∉ builtinNames)
    (ha : eval M env a = .ok v) (hp : M.proc fn [v] env = .ok env') :
    execStmt M env (.expr (.call fn (.cons a .nil))) = .ok (.next env') := by
  simp [execStmt, evalArgs, ha, evalBuiltin_none fn _ hb, hp]

end Q
open Q

/-! ## 1. the queues as history keys -/

/-- one payload as scalars: its length, then its bytes (the `encodePayload` of LayerRx.lean) -/
def payloadScs (p : Bytes) : List Sc := .py (.int p.length) :: p.map (fun b => Sc.py (.int b.toNat))
/-- a queue of payloads as ONE list of scalars (the `encodePayloads` of LayerRx.lean) -/
def payloadsScs (l : List Bytes) : List Sc := l.flatMap payloadScs

theorem payloadsScs_cons (p : Bytes) (l : List Bytes) : payloadsScs (p :: l) = payloadScs p ++ payloadsScs l := by
  simp [payloadsScs]
theorem payloadsScs_nil : payloadsScs [] = [] := rfl

theorem payloadsScs_length (l : List Bytes) : l.length ≤ (payloadsScs l).length := by
  induction l with
  | nil => simp [payloadsScs]
  | cons p l ih => rw [payloadsScs_cons]; simp [payloadScs]; omega

/-- the ids of the queued requests -/
def reqIds (q : List Req) : List Sc := q.map (fun r => Sc.py (.int r.id))

/-- one call `SendRequest.complete(ok)` of request `id`: the two scalars `id, ok` (the `donePair` of LayerTxHelpers.lean) -/
def qDonePair (id : Nat) (ok : Bool) : List Sc := [.py (.int id), .py (.bool ok)]

/-- the completions recorded so far, oldest first (the `doneHist` of LayerTxHelpers.lean; the model's log is newest first) -/
def qDoneHist : List Ev → List Sc
  | [] => []
  | .done id ok :: rest => qDoneHist rest ++ qDonePair id ok
  | _ :: rest => qDoneHist rest

/-- reading a byte back -/
def scByte : Sc → Option UInt8
  | .py (.int (.ofNat k)) => some (UInt8.ofNat k)
  | _ => none

/-- `n` bytes from the front of an encoded queue -/
def takeBytes : Nat → List Sc → Option (Bytes × List Sc)
  | 0, xs => some ([], xs)
  | _ + 1, [] => none
  | n + 1, x :: xs =>
    match scByte x, takeBytes n xs with
    | some b, some (p, r) => some (b :: p, r)
    | _, _ => none

/-- the first payload of an encoded queue, and the rest of the queue -/
def headPayload : List Sc → Option (Bytes × List Sc)
  | .py (.int (.ofNat n)) :: rest => takeBytes n rest
  | _ => none

theorem takeBytes_encoded (p : Bytes) (tail : List Sc) :
    takeBytes p.length (p.map (fun b => Sc.py (.int b.toNat)) ++ tail) = some (p, tail) := by
  induction p with
  | nil => rfl
  | cons b p ih =>
    show (match scByte (Sc.py (.int b.toNat)), takeBytes p.length (p.map (fun b => Sc.py (.int b.toNat)) ++ tail) with
      | some b, some (p, r) => some (b :: p, r)
      | _, _ => none) = _
    rw [ih]
    show some (UInt8.ofNat b.toNat :: p, tail) = _
    rw [UInt8.ofNat_toNat]

/-- decoding inverts the encoding -/
theorem headPayload_encoded (p : Bytes) (l : List Bytes) :
    headPayload (payloadsScs (p :: l)) = some (p, payloadsScs l) := by
  rw [payloadsScs_cons]
  exact takeBytes_encoded p (payloadsScs l)

/-! ## 2. the `queue.Queue` primitives -/

/-- `self.rx_queue.get(block=b, timeout=t)`, as a VALUE (a call in expression position cannot change the environment: the removal of the
    head from the queue is the primitive's effect, which is `rxPop` below).  On an empty queue: `queue.Empty` - except for
    `block=True, timeout=None`, where `Queue.get` never returns (in the single-threaded setting of the model): no result. -/
def rxGet (args : List PV) (env : Env) : Except PErr PV :=
  match args, env "#rx_queue" with
  | [.sc (.py (.bool b)), t], some (.list xs) =>
    (match xs with
     | [] => if b && t == pnone then .error (.unsupported "Queue.get(block=True, timeout=None) on an empty queue: blocks forever")
             else .error (.unsupported "raise Empty")
     | _ => match headPayload xs with
            | some (p, _) => .ok (.bytes p)
            | none => .error (.unsupported "malformed #rx_queue"))
  | _, _ => .error (.exc .AttributeError)

/-- `q.empty()` of the queue kept under key `k` -/
def qEmpty (k : String) (env : Env) : Except PErr PV :=
  match env k with
  | some (.list xs) => .ok (pbool xs.isEmpty)
  | _ => .error (.exc .AttributeError)

/-- `self.rx_queue.get_nowait()` as a statement: the head payload is dropped (`queue.Empty` on an empty queue) -/
def rxPop (env : Env) : Except PErr Env :=
  match env "#rx_queue" with
  | some (.list xs) =>
    (match xs with
     | [] => .error (.unsupported "raise Empty")
     | _ => match headPayload xs with
            | some (_, rest) => .ok (env.set "#rx_queue" (.list rest))
            | none => .error (.unsupported "malformed #rx_queue"))
  | _ => .error (.exc .AttributeError)

/-- `self.tx_queue.get_nowait().complete(ok)`: the head request leaves the queue and its completion is recorded -/
def txPop (args : List PV) (env : Env) : Except PErr Env :=
  match args, env "#tx_queue", env "#done" with
  | [.sc (.py (.bool ok))], some (.list (.py (.int (.ofNat id)) :: rest)), some (.list h) =>
    .ok ((env.set "#tx_queue" (.list rest)).set "#done" (.list (h ++ qDonePair id ok)))
  | [.sc (.py (.bool _))], some (.list []), _ => .error (.unsupported "raise Empty")
  | _, _, _ => .error (.exc .AttributeError)

/-- the primitives of the two queues -/
def queueMeths : Meths where
  fn := fun name args env =>
    match name, args with
    | "self.rx_queue.get#block#timeout", args => rxGet args env
    | "self.rx_queue.empty", [] => qEmpty "#rx_queue" env
    | "self.tx_queue.empty", [] => qEmpty "#tx_queue" env
    | n, _ => .error (.unsupported ("call " ++ n))
  proc := fun name args env =>
    match name, args with
    | "self.rx_queue.get_nowait", [] => rxPop env
    | "self.tx_queue.get_nowait().complete", args => txPop args env
    | n, _ => .error (.unsupported ("call " ++ n))

theorem queueMeths_lookups (args : List PV) (env : Env) :
    queueMeths.fn "self.rx_queue.get#block#timeout" args env = rxGet args env ∧
    queueMeths.fn "self.rx_queue.empty" [] env = qEmpty "#rx_queue" env ∧
    queueMeths.fn "self.tx_queue.empty" [] env = qEmpty "#tx_queue" env ∧
    queueMeths.proc "self.rx_queue.get_nowait" [] env = rxPop env ∧
    queueMeths.proc "self.tx_queue.get_nowait().complete" args env = txPop args env :=
  ⟨rfl, rfl, rfl, rfl, rfl⟩

theorem qEmpty_list (k : String) (env : Env) (xs : List Sc) (h : env k = some (.list xs)) :
    qEmpty k env = .ok (pbool xs.isEmpty) := by
  unfold qEmpty; rw [h]

theorem payloadsScs_cons_ne_nil (p : Bytes) (l : List Bytes) : payloadsScs (p :: l) ≠ [] := by
  rw [payloadsScs_cons]; simp [payloadScs]

theorem rxPop_cons (env : Env) (p : Bytes) (l : List Bytes) (h : env "#rx_queue" = some (.list (payloadsScs (p :: l)))) :
    rxPop env = .ok (env.set "#rx_queue" (.list (payloadsScs l))) := by
  unfold rxPop; rw [h]
  have hne := payloadsScs_cons_ne_nil p l
  have hd := headPayload_encoded p l
  revert hne hd
  generalize payloadsScs (p :: l) = xs
  intro hne hd
  cases xs with
  | nil => exact absurd rfl hne
  | cons x xs => simp only [hd]

theorem rxGet_cons (env : Env) (b : Bool) (t : PV) (p : Bytes) (l : List Bytes)
    (h : env "#rx_queue" = some (.list (payloadsScs (p :: l)))) :
    rxGet [pbool b, t] env = .ok (.bytes p) := by
  unfold rxGet; rw [h]
  have hne := payloadsScs_cons_ne_nil p l
  have hd := headPayload_encoded p l
  revert hne hd
  generalize payloadsScs (p :: l) = xs
  intro hne hd
  cases xs with
  | nil => exact absurd rfl hne
  | cons x xs => simp only [hd]

theorem rxGet_nil (env : Env) (b : Bool) (t : PV) (h : env "#rx_queue" = some (.list [])) :
    rxGet [pbool b, t] env =
      if b && t == pnone then .error (.unsupported "Queue.get(block=True, timeout=None) on an empty queue: blocks forever")
      else .error (.unsupported "raise Empty") := by
  unfold rxGet; rw [h]

theorem txPop_cons (env : Env) (ok : Bool) (r : Req) (q : List Req) (h : List Sc)
    (hq : env "#tx_queue" = some (.list (reqIds (r :: q)))) (hd : env "#done" = some (.list h)) :
    txPop [pbool ok] env = .ok ((env.set "#tx_queue" (.list (reqIds q))).set "#done" (.list (h ++ qDonePair r.id ok))) := by
  unfold txPop; rw [hq, hd]; rfl

/-! ## 3. `recv` -/

/-- what an environment must show of the reception queue of `s` -/
def RxqShows (env : Env) (s : State) : Prop := env "#rx_queue" = some (.list (payloadsScs s.rxQueue))

/-- the value `recv` returns, as a Python value -/
def recvPV : Option Bytes → PV
  | some p => .bytes p
  | none => pnone

theorem eval_rx_get (env : Env) (b : Bool) (t : PV) (hb : env "block" = some (pbool b)) (ht : env "timeout" = some t) :
    eval queueMeths env (.call "self.rx_queue.get#block#timeout" (.cons (.var "block") (.cons (.var "timeout") .nil))) =
      rxGet [pbool b, t] env := by
  simp [eval, evalArgs, hb, ht, evalBuiltin_none "self.rx_queue.get#block#timeout" _ (by decide), (queueMeths_lookups _ env).1]

/-- **`recv`**: with at least 4 units of fuel, in every environment that shows the reception queue of `s` and binds the two parameters,
    the call returns what the model's `recv` returns (the head payload, or `None` when the queue is empty: the primitive raises
    `queue.Empty`, which `except queue.Empty` catches) and leaves the environment as it is.  The removal of the head is the effect of the
    PRIMITIVE `Queue.get`, outside the text of `recv`: it is `rxPop` (`rxPop_shows_recv`).
    Side condition: not `block=True, timeout=None` on an empty queue (the real call then never returns; see `recv_blocks_forever`). -/
theorem recv_agrees (s : State) (env : Env) (b : Bool) (t : PV) (n : Nat) (hn : 4 ≤ n)
    (hq : RxqShows env s) (hb : env "block" = some (pbool b)) (ht : env "timeout" = some t)
    (hnb : s.rxQueue = [] → b = false ∨ t ≠ pnone) :
    run2 n queueMeths env Src.TransportLayerLogic_recv = .ok (.ret (recvPV s.recv.2) env) := by
  obtain ⟨k, rfl⟩ : ∃ k, n = k + 4 := ⟨n - 4, by omega⟩
  have he := eval_rx_get env b t hb ht
  unfold RxqShows at hq
  unfold run2 Src.TransportLayerLogic_recv
  rw [exec2B_cons, exec2S_tryCatch, exec2B_cons, exec2S_simple _ _ _ _ rfl]
  unfold simple2 execStmt
  rw [he]
  cases hs : s.rxQueue with
  | nil =>
    rw [hs] at hq
    have hc : (b && t == pnone) = false := by
      rcases hnb hs with h | h
      · simp [h]
      · simp [h]
    rw [rxGet_nil env b t hq, hc]
    simp only [State.recv, hs, recvPV]
    rfl
  | cons p l =>
    rw [hs] at hq
    rw [rxGet_cons env b t p l hq]
    simp only [State.recv, hs, recvPV]
    rfl

/-- `recv(block=True, timeout=None)` on an empty queue: no result in the interpretation either (an interpreter error, not a value) -/
theorem recv_blocks_forever (s : State) (env : Env) (n : Nat) (hn : 4 ≤ n)
    (hq : RxqShows env s) (hb : env "block" = some (pbool true)) (ht : env "timeout" = some pnone) (he : s.rxQueue = []) :
    run2 n queueMeths env Src.TransportLayerLogic_recv =
      .error (.unsupported "Queue.get(block=True, timeout=None) on an empty queue: blocks forever") := by
  obtain ⟨k, rfl⟩ : ∃ k, n = k + 4 := ⟨n - 4, by omega⟩
  have he' := eval_rx_get env true pnone hb ht
  unfold RxqShows at hq
  rw [he] at hq
  unfold run2 Src.TransportLayerLogic_recv
  rw [exec2B_cons, exec2S_tryCatch, exec2B_cons, exec2S_simple _ _ _ _ rfl]
  unfold simple2 execStmt
  rw [he', rxGet_nil env true pnone hq]
  rfl

/-- the effect of the primitive: after `Queue.get` took the head, the environment shows the queue of the model's `recv` -/
theorem rxPop_shows_recv (s : State) (env : Env) (p : Bytes) (l : List Bytes) (hs : s.rxQueue = p :: l) (hq : RxqShows env s) :
    ∃ env', rxPop env = .ok env' ∧ RxqShows env' s.recv.1 ∧ ∀ k, k ≠ "#rx_queue" → env' k = env k := by
  unfold RxqShows at hq
  rw [hs] at hq
  refine ⟨_, rxPop_cons env p l hq, ?_, ?_⟩
  · simp [RxqShows, State.recv, hs, set_get]
  · intro k hk; simp [set_get, hk]

/-! ## 4. `clear_rx_queue` -/

def rxCond : PExpr := .not_ (.call "self.rx_queue.empty" .nil)
def rxBody : PBlock := .cons (.expr (.call "self.rx_queue.get_nowait" .nil)) .nil

theorem clear_rx_queue_src : Src.TransportLayerLogic_clear_rx_queue = .cons (.while_ rxCond rxBody) .nil := rfl

theorem eval_rxCond (env : Env) (xs : List Sc) (h : env "#rx_queue" = some (.list xs)) :
    eval queueMeths env rxCond = .ok (pbool (!xs.isEmpty)) := by
  simp [rxCond, eval, evalArgs, evalBuiltin_none "self.rx_queue.empty" _ (by decide), (queueMeths_lookups [] env).2.1,
    qEmpty_list _ env xs h]

/-- the loop, by induction on the queue: `|queue| + 2` units of fuel are enough -/
theorem clear_rx_loop : ∀ (q : List Bytes) (env : Env) (n : Nat), env "#rx_queue" = some (.list (payloadsScs q)) → q.length + 2 ≤ n →
    exec2S n queueMeths env (.while_ rxCond rxBody) = .ok (.next (env.set "#rx_queue" (.list [])))
  | [], env, n, hq, hn => by
    obtain ⟨m, rfl⟩ : ∃ m, n = m + 1 := ⟨n - 1, by omega⟩
    rw [exec2S_while, eval_rxCond env _ hq]
    simp only [truthy_pbool, payloadsScs_nil, List.isEmpty_nil, Bool.not_true]
    rw [set_same env "#rx_queue" (.list []) hq]
  | p :: l, env, n, hq, hn => by
    obtain ⟨m, rfl⟩ : ∃ m, n = m + 3 := ⟨n - 3, by simp only [List.length_cons] at hn; omega⟩
    have hne : (payloadsScs (p :: l)).isEmpty = false := by
      have := payloadsScs_cons_ne_nil p l
      cases hx : payloadsScs (p :: l) with
      | nil => exact absurd hx this
      | cons _ _ => rfl
    have hbody : exec2B (m + 2) queueMeths env rxBody = .ok (.next (env.set "#rx_queue" (.list (payloadsScs l)))) := by
      unfold rxBody
      rw [exec2B_single _ _ _ _ rfl]
      unfold simple2
      rw [proc0 queueMeths env _ "self.rx_queue.get_nowait" (by decide)
        ((queueMeths_lookups [] env).2.2.2.1.trans (rxPop_cons env p l hq))]
      rfl
    have ih := clear_rx_loop l (env.set "#rx_queue" (.list (payloadsScs l))) (m + 2) (by simp [set_get])
      (by simp only [List.length_cons] at hn; omega)
    rw [exec2S_while, eval_rxCond env _ hq]
    simp only [truthy_pbool, hne, Bool.not_false]
    rw [hbody]
    simp only
    rw [ih, set_set]

/-- **`clear_rx_queue`**: for every content of the reception queue, with fuel `≥ |queue| + 3` the run ends normally, in the environment where
    `#rx_queue` is empty and nothing else changed: the model's `{ s with rxQueue := [] }` (first step of `State.reset`). -/
theorem clear_rx_queue_agrees (s : State) (env : Env) (n : Nat) (hq : RxqShows env s) (hn : s.rxQueue.length + 3 ≤ n) :
    run2 n queueMeths env Src.TransportLayerLogic_clear_rx_queue = .ok (.ret pnone (env.set "#rx_queue" (.list []))) ∧
    RxqShows (env.set "#rx_queue" (.list [])) { s with rxQueue := [] } ∧
    ∀ k, k ≠ "#rx_queue" → (env.set "#rx_queue" (.list [])) k = env k := by
  refine ⟨?_, ?_, ?_⟩
  · obtain ⟨m, rfl⟩ : ∃ m, n = m + 1 := ⟨n - 1, by omega⟩
    unfold run2
    rw [clear_rx_queue_src, exec2B_cons, clear_rx_loop s.rxQueue env m hq (by omega)]
    obtain ⟨j, rfl⟩ : ∃ j, m = j + 1 := ⟨m - 1, by omega⟩
    rfl
  · simp [RxqShows, set_get, payloadsScs_nil]
  · intro k hk; simp [set_get, hk]

/-! ## 5. `clear_tx_queue` -/

def txCond : PExpr := .not_ (.call "self.tx_queue.empty" .nil)
def txBody : PBlock := .cons (.expr (.call "self.tx_queue.get_nowait().complete" (.cons .ff .nil))) .nil

theorem clear_tx_queue_src : Src.TransportLayerLogic_clear_tx_queue = .cons (.while_ txCond txBody) .nil := rfl

theorem eval_txCond (env : Env) (xs : List Sc) (h : env "#tx_queue" = some (.list xs)) :
    eval queueMeths env txCond = .ok (pbool (!xs.isEmpty)) := by
  simp [txCond, eval, evalArgs, evalBuiltin_none "self.tx_queue.empty" _ (by decide), (queueMeths_lookups [] env).2.2.1,
    qEmpty_list _ env xs h]

/-- the completions `clear_tx_queue` records: `(id, False)` for every queued request, in queue order -/
def failAll (q : List Req) : List Sc := q.flatMap (fun r => qDonePair r.id false)

/-- the environment `clear_tx_queue` ends with -/
def clearTxEnv (env : Env) (h : List Sc) (q : List Req) : Env :=
  (env.set "#tx_queue" (.list [])).set "#done" (.list (h ++ failAll q))

theorem clear_tx_loop : ∀ (q : List Req) (env : Env) (h : List Sc) (n : Nat),
    env "#tx_queue" = some (.list (reqIds q)) → env "#done" = some (.list h) → q.length + 2 ≤ n →
    exec2S n queueMeths env (.while_ txCond txBody) = .ok (.next (clearTxEnv env h q))
  | [], env, h, n, hq, hd, hn => by
    obtain ⟨m, rfl⟩ : ∃ m, n = m + 1 := ⟨n - 1, by omega⟩
    rw [exec2S_while, eval_txCond env _ hq]
    simp only [truthy_pbool, reqIds, List.map_nil, List.isEmpty_nil, Bool.not_true]
    have : clearTxEnv env h [] = env := by
      unfold clearTxEnv failAll
      simp only [List.flatMap_nil, List.append_nil]
      rw [set_same _ "#done" _ (by simpa [set_get] using hd), set_same env "#tx_queue" (.list []) hq]
    rw [this]
  | r :: q, env, h, n, hq, hd, hn => by
    obtain ⟨m, rfl⟩ : ∃ m, n = m + 3 := ⟨n - 3, by simp only [List.length_cons] at hn; omega⟩
    let env1 : Env := (env.set "#tx_queue" (.list (reqIds q))).set "#done" (.list (h ++ qDonePair r.id false))
    have hbody : exec2B (m + 2) queueMeths env txBody = .ok (.next env1) := by
      unfold txBody
      rw [exec2B_single _ _ _ _ rfl]
      unfold simple2
      rw [proc1 queueMeths env env1 "self.tx_queue.get_nowait().complete" .ff (pbool false) (by decide) (by simp [eval])
        ((queueMeths_lookups [pbool false] env).2.2.2.2.trans (txPop_cons env false r q h hq hd))]
      rfl
    have ih := clear_tx_loop q env1 (h ++ qDonePair r.id false) (m + 2) (by simp [env1, set_get]) (by simp [env1, set_get])
      (by simp only [List.length_cons] at hn; omega)
    have hfin : clearTxEnv env1 (h ++ qDonePair r.id false) q = clearTxEnv env h (r :: q) := by
      funext k
      simp only [clearTxEnv, env1, failAll, List.flatMap_cons, Env.set, List.append_assoc]
      by_cases h1 : k = "#done" <;> by_cases h2 : k = "#tx_queue" <;> simp [h1, h2]
    rw [exec2S_while, eval_txCond env _ hq]
    simp only [truthy_pbool, reqIds, List.map_cons, List.isEmpty_cons, Bool.not_false]
    rw [hbody]
    simp only
    rw [ih, hfin]

/-- what an environment must show of the transmit queue and of the completion history of `s` -/
def TxqShows (env : Env) (s : State) : Prop :=
  env "#tx_queue" = some (.list (reqIds s.txQueue)) ∧ env "#done" = some (.list (qDoneHist s.log))

/-- the model's `clearTxQueue`: the queue is emptied, one `.done id false` event per request is logged, in queue order; nothing else -/
theorem clearTxQueue_spec : ∀ (q : List Req) (s : State),
    (s.clearTxQueue q).txQueue = [] ∧ qDoneHist (s.clearTxQueue q).log = qDoneHist s.log ++ failAll q ∧
    (s.clearTxQueue q).rxQueue = s.rxQueue ∧ (s.clearTxQueue q).active = s.active
  | [], s => by simp [State.clearTxQueue, failAll]
  | r :: q, s => by
    obtain ⟨h1, h2, h3, h4⟩ := clearTxQueue_spec q (s.emit (.done r.id false))
    refine ⟨h1, ?_, h3, h4⟩
    simp only [State.clearTxQueue]
    rw [h2]
    simp [State.emit, qDoneHist, failAll, List.append_assoc]

/-- **`clear_tx_queue`**: for every content of the transmit queue, with fuel `≥ |queue| + 3` the run ends normally in `clearTxEnv`: `#tx_queue`
    empty, `#done` = old history ++ `(id, False)` for every queued request in queue order, nothing else changed; and that environment shows
    the model's `s.clearTxQueue s.txQueue` (one `emit (.done r.id false)` per request, in order). -/
theorem clear_tx_queue_agrees (s : State) (env : Env) (n : Nat) (hq : TxqShows env s) (hn : s.txQueue.length + 3 ≤ n) :
    run2 n queueMeths env Src.TransportLayerLogic_clear_tx_queue =
      .ok (.ret pnone (clearTxEnv env (qDoneHist s.log) s.txQueue)) ∧
    TxqShows (clearTxEnv env (qDoneHist s.log) s.txQueue) (s.clearTxQueue s.txQueue) ∧
    ∀ k, k ≠ "#tx_queue" → k ≠ "#done" → (clearTxEnv env (qDoneHist s.log) s.txQueue) k = env k := by
  obtain ⟨hq1, hq2⟩ := hq
  refine ⟨?_, ?_, ?_⟩
  · obtain ⟨m, rfl⟩ : ∃ m, n = m + 1 := ⟨n - 1, by omega⟩
    unfold run2
    rw [clear_tx_queue_src, exec2B_cons, clear_tx_loop s.txQueue env _ m hq1 hq2 (by omega)]
    obtain ⟨j, rfl⟩ : ∃ j, m = j + 1 := ⟨m - 1, by omega⟩
    rfl
  · obtain ⟨h1, h2, -, -⟩ := clearTxQueue_spec s.txQueue s
    constructor
    · simp [clearTxEnv, set_get, h1, reqIds]
    · simp [clearTxEnv, set_get, h2]
  · intro k hk1 hk2; simp [clearTxEnv, set_get, hk1, hk2]

/-! ### fuel: `|queue| + 3` is what the loop needs (one unit less runs out), and the hypotheses are satisfiable -/

/-- an environment that shows exactly the three history keys -/
def queuesEnv (rx : List Bytes) (tx : List Req) (log : List Ev) : Env := fun k =>
  match k with
  | "#rx_queue" => some (.list (payloadsScs rx))
  | "#tx_queue" => some (.list (reqIds tx))
  | "#done" => some (.list (qDoneHist log))
  | "block" => some (pbool false)
  | "timeout" => some pnone
  | _ => none

theorem queuesEnv_shows (s : State) :
    RxqShows (queuesEnv s.rxQueue s.txQueue s.log) s ∧ TxqShows (queuesEnv s.rxQueue s.txQueue s.log) s :=
  ⟨rfl, rfl, rfl⟩

/-- one queued payload: 4 units of fuel end the run, 3 do not -/
example : (∃ env', run2 4 queueMeths (queuesEnv [[1, 2]] [] []) Src.TransportLayerLogic_clear_rx_queue = .ok (.ret pnone env')) ∧
    run2 3 queueMeths (queuesEnv [[1, 2]] [] []) Src.TransportLayerLogic_clear_rx_queue = .error .outOfFuel :=
  ⟨⟨_, (clear_rx_queue_agrees { (default : State) with rxQueue := [[1, 2]] } (queuesEnv [[1, 2]] [] []) 4 rfl (by decide)).1⟩, rfl⟩

/-! ## 6. `reset` -/

/-- The five callees of `reset`, given by the MODEL functions seen through the environment: `R env s` reads "`env` shows `s`"; every callee,
    run in an environment that shows `s`, ends in an environment that shows the model function applied to `s`.
    Each is tied to its own source by another leaf:
    * `self.clear_rx_queue()`          : `clear_rx_queue_agrees` (this file);
    * `self.clear_tx_queue()`          : `clear_tx_queue_agrees` (this file);
    * `self._stop_sending(success=)`   : `p_stop_sending_run` + `stopEnv_has` (LayerTxHelpers.lean);
    * `self._stop_receiving()`         : `stop_receiving_agrees` (LayerTxHelpers.lean) / `stop_receiving_src` + `Rep.stopRecv` (LayerRx.lean);
    * `self.rate_limiter.reset()`      : `ratelimiter_reset_agrees` (LayerTxHelpers.lean).
    `resetMeths_callees` below is an instance in which the first two ARE the interpreted sources. -/
structure ResetCallees (M : Meths) (R : Env → State → Prop) : Prop where
  clear_rx : ∀ env s, R env s → ∃ env', M.proc "self.clear_rx_queue" [] env = .ok env' ∧ R env' { s with rxQueue := [] }
  clear_tx : ∀ env s, R env s → ∃ env', M.proc "self.clear_tx_queue" [] env = .ok env' ∧ R env' (s.clearTxQueue s.txQueue)
  stop_sending : ∀ env s, R env s →
    ∃ env', M.proc "self._stop_sending#success" [pbool false] env = .ok env' ∧ R env' (s.stopSending false)
  stop_receiving : ∀ env s, R env s → ∃ env', M.proc "self._stop_receiving" [] env = .ok env' ∧ R env' s.stopReceiving
  rl_reset : ∀ env s, R env s → ∃ env', M.proc "self.rate_limiter.reset" [] env = .ok env' ∧ R env' { s with rl := s.rl.reset }

theorem reset_loopFree : loopFreeB Src.TransportLayerLogic_reset = true ∧ dumperShapeB Src.TransportLayerLogic_reset = true ∧
    depthB Src.TransportLayerLogic_reset = 6 := ⟨rfl, rfl, rfl⟩

private theorem cons_next {M : Meths} {env env' : Env} {s : PStmt} {rest : PBlock}
    (h : execStmt M env s = .ok (.next env')) : execBlock M env (.cons s rest) = execBlock M env' rest := by
  simp only [execBlock, h, ok_bind]

/-- **`reset`**, first semantics: in every environment that shows `s`, the call returns `None` and ends in an environment that shows the
    model's `s.reset` -/
theorem reset_agrees_runFn (M : Meths) (R : Env → State → Prop) (hM : ResetCallees M R) (s : State) (env : Env) (h : R env s) :
    ∃ env', runFn M env Src.TransportLayerLogic_reset = .ok (pnone, env') ∧ R env' s.reset := by
  obtain ⟨e1, p1, r1⟩ := hM.clear_rx env s h
  obtain ⟨e2, p2, r2⟩ := hM.clear_tx e1 _ r1
  obtain ⟨e3, p3, r3⟩ := hM.stop_sending e2 _ r2
  obtain ⟨e4, p4, r4⟩ := hM.stop_receiving e3 _ r3
  obtain ⟨e5, p5, r5⟩ := hM.rl_reset e4 _ r4
  refine ⟨e5, ?_, r5⟩
  unfold runFn Src.TransportLayerLogic_reset
  rw [cons_next (proc0 M env e1 _ (by decide) p1), cons_next (proc0 M e1 e2 _ (by decide) p2),
    cons_next (proc1 M e2 e3 _ .ff (pbool false) (by decide) (by simp [eval]) p3),
    cons_next (proc0 M e3 e4 _ (by decide) p4), cons_next (proc0 M e4 e5 _ (by decide) p5)]
  rfl

/-- **`reset`**, second semantics (through the bridge `run2_eq_runFn`: the body is loop-free and needs 6 units of fuel) -/
theorem reset_agrees (M : Meths) (R : Env → State → Prop) (hM : ResetCallees M R) (s : State) (env : Env) (h : R env s) :
    ∃ env', (∀ n, 6 ≤ n → run2 n M env Src.TransportLayerLogic_reset = .ok (.ret pnone env')) ∧ R env' s.reset := by
  obtain ⟨env', h1, h2⟩ := reset_agrees_runFn M R hM s env h
  exact ⟨env', fun n hn => run2_eq_runFn M _ n env env' pnone reset_loopFree.1 reset_loopFree.2.1
    (by rw [reset_loopFree.2.2]; exact hn) h1, h2⟩

/-! ### an instance: the two `clear_*_queue` callees are the INTERPRETED sources; the other three act on a few representative attributes -/

def qTxStPV : TxSt → PV
  | .idle => .sc (.enum "TxState" "IDLE") | .waitFc => .sc (.enum "TxState" "WAIT_FC") | .transmitCf => .sc (.enum "TxState" "TRANSMIT_CF")
  | .sfStandby => .sc (.enum "TxState" "TRANSMIT_SF_STANDBY") | .ffStandby => .sc (.enum "TxState" "TRANSMIT_FF_STANDBY")
def qRxStPV : RxSt → PV
  | .idle => .sc (.enum "RxState" "IDLE") | .waitCf => .sc (.enum "RxState" "WAIT_CF")

/-- what the instance shows of a state: the queues, the completion history, the id of the active request, the two FSM states, the reception
    buffer, the bit total of the rate limiter -/
structure ResetShows (env : Env) (s : State) : Prop where
  rxq : env "#rx_queue" = some (.list (payloadsScs s.rxQueue))
  txq : env "#tx_queue" = some (.list (reqIds s.txQueue))
  done : env "#done" = some (.list (qDoneHist s.log))
  active : env "#active" = some (optPV (s.active.map (·.id)))
  txState : env "self.tx_state" = some (qTxStPV s.txState)
  rxState : env "self.rx_state" = some (qRxStPV s.rxState)
  rxBuf : env "self.rx_buffer" = some (.bytes s.rxBuf)
  bitTotal : env "self.rate_limiter.bit_total" = some (pint s.rl.bitTotal)

/-- a callee given by its interpreted source: the environment it returns in -/
def procOfRun2 (r : Except Err2 Out) : Except PErr Env :=
  match r with
  | .ok (.ret _ env') => .ok env'
  | _ => .error (.unsupported "the callee did not return")

/-- the length of the list kept under a key: the fuel given to the interpreted `clear_*_queue` is that length + 3 -/
def keyLen (k : String) (env : Env) : Nat :=
  match env k with
  | some (.list xs) => xs.length
  | _ => 0

/-- `_stop_sending(success)` on the attributes shown -/
def stopSendEnv (ok : Bool) (env : Env) : Env :=
  let env1 := match env "#active", env "#done" with
    | some (.sc (.py (.int (.ofNat id)))), some (.list h) => (env.set "#done" (.list (h ++ qDonePair id ok))).set "#active" pnone
    | _, _ => env
  env1.set "self.tx_state" (qTxStPV .idle)

def resetMeths : Meths where
  fn := queueMeths.fn
  proc := fun name args env =>
    match name, args with
    | "self.clear_rx_queue", [] =>
      procOfRun2 (run2 (keyLen "#rx_queue" env + 3) queueMeths env Src.TransportLayerLogic_clear_rx_queue)
    | "self.clear_tx_queue", [] =>
      procOfRun2 (run2 (keyLen "#tx_queue" env + 3) queueMeths env Src.TransportLayerLogic_clear_tx_queue)
    | "self._stop_sending#success", [.sc (.py (.bool ok))] => .ok (stopSendEnv ok env)
    | "self._stop_receiving", [] => .ok ((env.set "self.rx_state" (qRxStPV .idle)).set "self.rx_buffer" (.bytes []))
    | "self.rate_limiter.reset", [] => .ok (env.set "self.rate_limiter.bit_total" (pint 0))
    | n, _ => .error (.unsupported ("call " ++ n))

theorem resetMeths_lookups (env : Env) (ok : Bool) :
    resetMeths.proc "self.clear_rx_queue" [] env =
      procOfRun2 (run2 (keyLen "#rx_queue" env + 3) queueMeths env Src.TransportLayerLogic_clear_rx_queue) ∧
    resetMeths.proc "self.clear_tx_queue" [] env =
      procOfRun2 (run2 (keyLen "#tx_queue" env + 3) queueMeths env Src.TransportLayerLogic_clear_tx_queue) ∧
    resetMeths.proc "self._stop_sending#success" [pbool ok] env = .ok (stopSendEnv ok env) ∧
    resetMeths.proc "self._stop_receiving" [] env = .ok ((env.set "self.rx_state" (qRxStPV .idle)).set "self.rx_buffer" (.bytes [])) ∧
    resetMeths.proc "self.rate_limiter.reset" [] env = .ok (env.set "self.rate_limiter.bit_total" (pint 0)) :=
  ⟨rfl, rfl, rfl, rfl, rfl⟩

/-- the fields `clearTxQueue` leaves alone -/
theorem clearTxQueue_frame : ∀ (q : List Req) (s : State),
    (s.clearTxQueue q).rxQueue = s.rxQueue ∧ (s.clearTxQueue q).active = s.active ∧ (s.clearTxQueue q).txState = s.txState ∧
    (s.clearTxQueue q).rxState = s.rxState ∧ (s.clearTxQueue q).rxBuf = s.rxBuf ∧ (s.clearTxQueue q).rl = s.rl
  | [], s => by simp [State.clearTxQueue]
  | r :: q, s => by
    simpa [State.clearTxQueue, State.emit] using clearTxQueue_frame q (s.emit (.done r.id false))

theorem reqIds_length (q : List Req) : (reqIds q).length = q.length := by simp [reqIds]

theorem resetMeths_callees : ResetCallees resetMeths ResetShows where
  clear_rx := by
    intro env s h
    have hlen : keyLen "#rx_queue" env = (payloadsScs s.rxQueue).length := by unfold keyLen; rw [h.rxq]
    have hrun := (clear_rx_queue_agrees s env (keyLen "#rx_queue" env + 3) h.rxq
      (by rw [hlen]; have := payloadsScs_length s.rxQueue; omega)).1
    refine ⟨env.set "#rx_queue" (.list []), ?_, ?_⟩
    · rw [(resetMeths_lookups env false).1, hrun]; rfl
    · constructor <;> simp [set_get, payloadsScs_nil, h.txq, h.done, h.active, h.txState, h.rxState, h.rxBuf, h.bitTotal]
  clear_tx := by
    intro env s h
    have hlen : keyLen "#tx_queue" env = s.txQueue.length := by unfold keyLen; rw [h.txq]; exact reqIds_length _
    obtain ⟨hrun, ⟨hs1, hs2⟩, hfr⟩ := clear_tx_queue_agrees s env (keyLen "#tx_queue" env + 3) ⟨h.txq, h.done⟩ (by omega)
    obtain ⟨f1, f2, f3, f4, f5, f6⟩ := clearTxQueue_frame s.txQueue s
    refine ⟨clearTxEnv env (qDoneHist s.log) s.txQueue, ?_, ?_⟩
    · rw [(resetMeths_lookups env false).2.1, hrun]; rfl
    · constructor
      · rw [hfr _ (by decide) (by decide), f1]; exact h.rxq
      · exact hs1
      · exact hs2
      · rw [hfr _ (by decide) (by decide), f2]; exact h.active
      · rw [hfr _ (by decide) (by decide), f3]; exact h.txState
      · rw [hfr _ (by decide) (by decide), f4]; exact h.rxState
      · rw [hfr _ (by decide) (by decide), f5]; exact h.rxBuf
      · rw [hfr _ (by decide) (by decide), f6]; exact h.bitTotal
  stop_sending := by
    intro env s h
    refine ⟨stopSendEnv false env, (resetMeths_lookups env false).2.2.1, ?_⟩
    have ha := h.active
    have hd := h.done
    cases hact : s.active with
    | none =>
      rw [hact] at ha
      constructor <;>
        simp [stopSendEnv, ha, optPV, State.stopSending, hact, set_get, qTxStPV, h.rxq, h.txq, h.done, h.rxState, h.rxBuf, h.bitTotal]
    | some r =>
      rw [hact] at ha
      have ha' : env "#active" = some (.sc (.py (.int (.ofNat r.id)))) := ha
      constructor <;>
        simp [stopSendEnv, ha', hd, State.stopSending, hact, State.emit, qDoneHist, optPV, set_get, qTxStPV, h.rxq, h.txq, h.rxState,
          h.rxBuf, h.bitTotal]
  stop_receiving := by
    intro env s h
    refine ⟨_, (resetMeths_lookups env false).2.2.2.1, ?_⟩
    constructor <;>
      simp [State.stopReceiving, set_get, qRxStPV, h.rxq, h.txq, h.done, h.active, h.txState, h.bitTotal]
  rl_reset := by
    intro env s h
    refine ⟨_, (resetMeths_lookups env false).2.2.2.2, ?_⟩
    constructor <;>
      simp [Limiter.reset, set_get, h.rxq, h.txq, h.done, h.active, h.txState, h.rxState, h.rxBuf]

/-- **`reset`** with the `clear_*_queue` callees interpreted from their sources: both semantics, every state -/
theorem reset_agrees_linked (s : State) (env : Env) (h : ResetShows env s) :
    ∃ env', runFn resetMeths env Src.TransportLayerLogic_reset = .ok (pnone, env') ∧
      (∀ n, 6 ≤ n → run2 n resetMeths env Src.TransportLayerLogic_reset = .ok (.ret pnone env')) ∧ ResetShows env' s.reset := by
  obtain ⟨env', h1, h2⟩ := reset_agrees_runFn resetMeths ResetShows resetMeths_callees s env h
  exact ⟨env', h1, fun n hn => run2_eq_runFn resetMeths _ n env env' pnone reset_loopFree.1 reset_loopFree.2.1
    (by rw [reset_loopFree.2.2]; exact hn) h1, h2⟩

/-- the last three steps of `reset`, on any state -/
theorem reset_tail_spec (t : State) :
    let u : State := { (t.stopSending false).stopReceiving with rl := ((t.stopSending false).stopReceiving).rl.reset }
    u.rxQueue = t.rxQueue ∧ u.txQueue = t.txQueue ∧
    qDoneHist u.log = qDoneHist t.log ++ (match t.active with | some r => qDonePair r.id false | none => []) ∧
    u.active = none ∧ u.txState = .idle ∧ u.rxState = .idle ∧ u.rxBuf = [] ∧ u.rl.bitTotal = 0 := by
  cases hact : t.active with
  | none => simp [State.stopSending, State.stopReceiving, Limiter.reset, hact]
  | some r => simp [State.stopSending, State.stopReceiving, Limiter.reset, State.emit, qDoneHist, hact]

/-- what `ResetShows` says about the state after `reset`: both queues empty, every queued request and then the active one completed with
    `False`, both FSMs idle, the buffer and the bit total cleared -/
theorem reset_spec (s : State) :
    s.reset.rxQueue = [] ∧ s.reset.txQueue = [] ∧
    qDoneHist s.reset.log = qDoneHist s.log ++ failAll s.txQueue ++ (match s.active with | some r => qDonePair r.id false | none => []) ∧
    s.reset.active = none ∧ s.reset.txState = .idle ∧ s.reset.rxState = .idle ∧ s.reset.rxBuf = [] ∧ s.reset.rl.bitTotal = 0 := by
  obtain ⟨h1, h2, -, -⟩ := clearTxQueue_spec s.txQueue { s with rxQueue := [] }
  obtain ⟨f1, f2, -, -, -, -⟩ := clearTxQueue_frame s.txQueue { s with rxQueue := [] }
  have ht := reset_tail_spec (({ s with rxQueue := [] } : State).clearTxQueue s.txQueue)
  have hr : s.reset =
      { ((({ s with rxQueue := [] } : State).clearTxQueue s.txQueue).stopSending false).stopReceiving with
        rl := (((({ s with rxQueue := [] } : State).clearTxQueue s.txQueue).stopSending false).stopReceiving).rl.reset } := rfl
  rw [hr]
  revert ht h1 h2 f1 f2
  generalize (({ s with rxQueue := [] } : State).clearTxQueue s.txQueue) = t
  intro h1 h2 f1 f2 ht
  simp only at h2 f1 f2
  obtain ⟨t1, t2, t3, t4, t5, t6, t7, t8⟩ := ht
  refine ⟨t1.trans f1, t2.trans h1, ?_, t4, t5, t6, t7, t8⟩
  rw [t3, h2, f2]

/-- the hypothesis is satisfiable for every state -/
def resetEnvOf (s : State) : Env := fun k =>
  match k with
  | "#rx_queue" => some (.list (payloadsScs s.rxQueue))
  | "#tx_queue" => some (.list (reqIds s.txQueue))
  | "#done" => some (.list (qDoneHist s.log))
  | "#active" => some (optPV (s.active.map (·.id)))
  | "self.tx_state" => some (qTxStPV s.txState)
  | "self.rx_state" => some (qRxStPV s.rxState)
  | "self.rx_buffer" => some (.bytes s.rxBuf)
  | "self.rate_limiter.bit_total" => some (pint s.rl.bitTotal)
  | _ => none

theorem resetEnvOf_shows (s : State) : ResetShows (resetEnvOf s) s := ⟨rfl, rfl, rfl, rfl, rfl, rfl, rfl, rfl⟩

example (s : State) : ∃ env', runFn resetMeths (resetEnvOf s) Src.TransportLayerLogic_reset = .ok (pnone, env') ∧ ResetShows env' s.reset := by
  obtain ⟨env', h1, -, h3⟩ := reset_agrees_linked s _ (resetEnvOf_shows s)
  exact ⟨env', h1, h3⟩

end Isotp.PyAgree

#print axioms Isotp.PyAgree.recv_agrees
#print axioms Isotp.PyAgree.recv_blocks_forever
#print axioms Isotp.PyAgree.rxPop_shows_recv
#print axioms Isotp.PyAgree.clear_rx_queue_agrees
#print axioms Isotp.PyAgree.clear_tx_queue_agrees
#print axioms Isotp.PyAgree.clearTxQueue_spec
#print axioms Isotp.PyAgree.reset_agrees_runFn
#print axioms Isotp.PyAgree.reset_agrees
#print axioms Isotp.PyAgree.resetMeths_callees
#print axioms Isotp.PyAgree.reset_agrees_linked
#print axioms Isotp.PyAgree.reset_spec
