import Isotp.PyAgree.LayerTxHelpers
import Isotp.PyAgree.PyCan
import Isotp.PyAgree.ThreadedWorker
/-!
  Source agreement for the small accessors / timing helpers of `isotp/protocol.py` and `isotp/tools.py` that the other leaves use as
  `Meths` assumptions.  FOR ALL STATES; hypotheses are the bindings the function reads (nothing is assumed of the other names).

  | source (`Src.`)                               | reference                                              | theorem |
  |-----------------------------------------------|--------------------------------------------------------|---------|
  | `TransportLayerLogic_is_rx_active`            | `State.isRxActive`                                     | `is_rx_active_agrees` |
  | `TransportLayerLogic_is_tx_transmitting_cf`   | `txState = .transmitCf`                                | `is_tx_transmitting_cf_agrees` |
  | `Timer_remaining`                             | `Timer.remaining now` ns, as seconds                   | `timer_remaining_calls`, `timer_remaining_agrees`, `timer_remaining_linked` |
  | `Timer_elapsed`                               | `(now - start)` ns, as seconds; `0` when stopped       | `timer_elapsed_int`, `timer_elapsed_agrees` |
  | `TransportLayerLogic_next_cf_delay`           | `nextCfDelay` (`Timer.timedOut`, `Timer.remaining`)    | `next_cf_delay_run`, `next_cf_delay_agrees`, `next_cf_delay_linked`, `workerPrims_of_src` |
  | `TransportLayerLogic_sleep_time`              | (dict lookup: OUTSIDE the subset, see section 4)       | `sleep_time_src`, `sleep_time_key`, `sleep_time_interp`, `sleep_time_dict_outside_subset`, `sleep_skeleton_agrees` |
  | `RateLimiter_can_be_enabled`                  | `canReason`                                            | `can_be_enabled_agrees`, `canReason_none_iff`, `can_be_enabled_nan` |
  | `RateLimiter_set_bitrate`                     | the attribute                                          | `set_bitrate_agrees` |
  | `TransportLayer_p_read_relay_queue`           | head of the relay queue / `None` on `queue.Empty`      | `read_relay_queue_run`, `read_relay_queue_agrees`, `read_relay_queue_other_exc` |
  | `NotifierBasedCanStack_p_rx_canbus`           | `None` without reader, else `_read_isotp_message`      | `nb_rx_canbus_agrees`, `nb_rx_canbus_shows`, `nb_rx_canbus_linked` |

  ## How floats are shown (what is ASSUMED of `Meths`)
  Times are integer nanoseconds (MiscTimer.lean).  The float computations of `Timer.remaining` / `Timer.elapsed` are calls the dumper
  leaves to `Meths` (`float`, `__float__ "1000000000.0"`, `__truediv__`): `SecArith M` says they compute EXACTLY
  (`float(i)` is numerically `i`, the literal is `10^9`, `i / 10^9` is the rational `PyVal.float i 10^9` = `secs i`).  The real code
  computes in IEEE doubles: `float(i)` is exact for `|i| < 2^53` ns (104 days), the division is correctly rounded (relative error
  `≤ 2^-53`).  That rounding is NOT modelled.
-/
namespace Isotp.PyAgree.Small
open Isotp Isotp.Py Isotp.PyAgree Isotp.PyAgree.TxH

/-! ## 1. `is_rx_active`, `is_tx_transmitting_cf` -/

theorem pvEq_pubRxStPV (a b : RxSt) : pvEq (pubRxStPV a) (pubRxStPV b) = decide (a = b) := by
  cases a <;> cases b <;> rfl

/-- **`is_rx_active()` = `State.isRxActive`** (`rx_state != RxState.IDLE`), any `Meths`, every environment that binds the two names -/
theorem is_rx_active_agrees (s : State) (M : Meths) (env : Env)
    (hS : env "self.rx_state" = some (pubRxStPV s.rxState)) (hI : env "self.RxState.IDLE" = some (pubRxStPV .idle)) :
    runFn M env Src.TransportLayerLogic_is_rx_active = .ok (pbool s.isRxActive, env) := by
  simp [runFn, Src.TransportLayerLogic_is_rx_active, execBlock, execStmt, eval, hS, hI, pvEq_pubRxStPV, State.isRxActive]
  cases s.rxState <;> rfl

/-- **`is_tx_transmitting_cf()`** = `tx_state == TxState.TRANSMIT_CF` -/
theorem is_tx_transmitting_cf_agrees (s : State) (M : Meths) (env : Env)
    (hS : env "self.tx_state" = some (txStPV s.txState)) (hC : env "self.TxState.TRANSMIT_CF" = some (txStPV .transmitCf)) :
    runFn M env Src.TransportLayerLogic_is_tx_transmitting_cf = .ok (pbool (decide (s.txState = .transmitCf)), env) := by
  simp [runFn, Src.TransportLayerLogic_is_tx_transmitting_cf, execBlock, execStmt, eval, hS, hC, pvEq_txStPV]

/-- the same in the presentation of LayerTxHelpers.lean -/
theorem is_rx_active_agrees_has (s : State) (M : Meths) (env : Env) (hE : Has env (pubRxAttrs s)) (hC : Has env pubRxConsts) :
    runFn M env Src.TransportLayerLogic_is_rx_active = .ok (pbool s.isRxActive, env) :=
  is_rx_active_agrees s M env (hE ("self.rx_state", pubRxStPV s.rxState) (by simp [pubRxAttrs]))
    (hC ("self.RxState.IDLE", pubRxStPV .idle) (by simp [pubRxConsts]))

theorem is_tx_transmitting_cf_agrees_has (s : State) (M : Meths) (env : Env) (hE : Has env (txAttrs s)) (hC : Has env txConsts) :
    runFn M env Src.TransportLayerLogic_is_tx_transmitting_cf = .ok (pbool (decide (s.txState = .transmitCf)), env) :=
  is_tx_transmitting_cf_agrees s M env (has_txAttrs hE).1 (has_txConsts hC).2.2.1

/-! ## 2. `Timer.remaining`, `Timer.elapsed` (isotp/tools.py) -/

/-- `n` nanoseconds as a number of seconds: the exact rational `n / 10^9` -/
def secs (n : Int) : PV := .sc (.py (.float n 1000000000))

/-- the float primitives of `Timer.remaining` / `Timer.elapsed`, computing exactly (see the header) -/
structure SecArith (M : Meths) : Prop where
  float : ∀ (i : Int) (env : Env), M.fn "float" [pint i] env = .ok (pint i)
  lit : ∀ (env : Env), M.fn "__float__" [.str "1000000000.0"] env = .ok (pint 1000000000)
  div : ∀ (i : Int) (env : Env), M.fn "__truediv__" [pint i, pint 1000000000] env = .ok (secs i)

/-- `Timer.remaining`, with NO assumption: `__truediv__(float(self.remaining_ns()), 1e9)`, the four calls in that order, the
    environment untouched -/
theorem timer_remaining_calls (M : Meths) (env : Env) :
    runFn M env Src.Timer_remaining =
      (do let r ← M.fn "self.remaining_ns" [] env
          let f ← M.fn "float" [r] env
          let l ← M.fn "__float__" [.str "1000000000.0"] env
          let d ← M.fn "__truediv__" [f, l] env
          .ok (d, env)) := by
  simp only [runFn, Src.Timer_remaining, execBlock, execStmt, eval, evalArgs, ok_bind,
    evalBuiltin_none "self.remaining_ns" _ (by decide), evalBuiltin_none "float" _ (by decide),
    evalBuiltin_none "__float__" _ (by decide), evalBuiltin_none "__truediv__" _ (by decide)]
  cases M.fn "self.remaining_ns" [] env with
  | error e => rfl
  | ok r =>
    simp only [ok_bind]
    cases M.fn "float" [r] env with
    | error e => rfl
    | ok f =>
      simp only [ok_bind]
      cases M.fn "__float__" [.str "1000000000.0"] env with
      | error e => rfl
      | ok l =>
        simp only [ok_bind]
        cases M.fn "__truediv__" [f, l] env <;> rfl

/-- **`Timer.remaining()` = `Timer.remaining now` nanoseconds, in seconds** (`remaining_ns()` answering the model's value:
    `timer_remaining_ns_agrees` / `_linked`, MiscTimer.lean) -/
theorem timer_remaining_agrees (M : Meths) (t : Timer) (now : Nat) (env : Env) (hA : SecArith M)
    (hR : M.fn "self.remaining_ns" [] env = .ok (pint (t.remaining now))) :
    runFn M env Src.Timer_remaining = .ok (secs (t.remaining now), env) := by
  rw [timer_remaining_calls, hR]
  simp only [ok_bind, hA.float, hA.lit, hA.div]

/-- the primitives with exact arithmetic, the clock, and `self.remaining_ns()` resolved by INTERPRETING its source (which in turn
    interprets `is_stopped` / `elapsed_ns`: `timerMethsSrc`) on the same object -/
def secMeths (now : Nat) : Meths where
  fn name args env :=
    match name, args with
    | "time.perf_counter_ns", [] => .ok (pint now)
    | "float", [.sc (.py (.int i))] => .ok (pint i)
    | "__float__", [.str s] => if s = "1000000000.0" then .ok (pint 1000000000) else .error (.unsupported ("float literal " ++ s))
    | "__truediv__", [.sc (.py (.int i)), .sc (.py (.int d))] =>
      if d = 1000000000 then .ok (secs i) else .error (.unsupported "division")
    | "self.remaining_ns", [] => retM (timerMethsSrc now) env Src.Timer_remaining_ns
    | _, _ => .error (.unsupported ("call " ++ name))
  proc name _ _ := .error (.unsupported ("call " ++ name))

theorem secMeths_arith (now : Nat) : SecArith (secMeths now) := ⟨fun _ _ => rfl, fun _ => rfl, fun _ _ => rfl⟩
theorem secMeths_clock (now : Nat) : ClockIs (secMeths now) now := fun _ => rfl

/-- **`Timer.remaining()` on the source alone** (monotonic clock, as for `remaining_ns`) -/
theorem timer_remaining_linked (t : Timer) (now : Nat) (hmono : Mono t now) :
    runFn (secMeths now) (timerEnv t) Src.Timer_remaining = .ok (secs (t.remaining now), timerEnv t) :=
  timer_remaining_agrees _ t now _ (secMeths_arith now) (timer_remaining_ns_linked t now hmono)

/-- `Timer.elapsed()`, exactly (Python `int` subtraction; no hypothesis on the clock): `(now - start) / 10^9` when started, the
    `int` `0` (not `0.0`) when stopped -/
theorem timer_elapsed_int (M : Meths) (t : Timer) (now : Nat) (env : Env) (hA : SecArith M) (hC : ClockIs M now)
    (hS : env "self.start_time" = some (optPV t.start)) :
    runFn M env Src.Timer_elapsed = .ok (if t.start.isSome then secs (elapsedInt t now) else pint 0, env) := by
  cases hs : t.start <;>
    simp [runFn, Src.Timer_elapsed, execBlock, execStmt, eval, evalArgs, hS, hs, optPV, builtin_clock, hC _, elapsedInt,
      evalBuiltin_none "float" _ (by decide), evalBuiltin_none "__float__" _ (by decide),
      evalBuiltin_none "__truediv__" _ (by decide), hA.float, hA.lit, hA.div]

/-- **`Timer.elapsed()` = the model's `now - start`** (truncated) when the clock is monotonic -/
theorem timer_elapsed_agrees (M : Meths) (t : Timer) (now : Nat) (env : Env) (hA : SecArith M) (hC : ClockIs M now)
    (hS : env "self.start_time" = some (optPV t.start)) (hmono : Mono t now) :
    runFn M env Src.Timer_elapsed = .ok (if t.start.isSome then secs (elapsedOf t now) else pint 0, env) := by
  rw [timer_elapsed_int M t now env hA hC hS, elapsedInt_eq t now hmono]

/-! ## 3. `next_cf_delay` -/

/-- `next_cf_delay()` whatever the callees are: `None` unless Consecutive Frames are being transmitted (`cf`); `0` (the `int`) when the
    STmin timer has timed out (`to`); otherwise what `self.timer_tx_stmin.remaining()` returns.  The callees are only asked when the
    source asks them. -/
theorem next_cf_delay_run (M : Meths) (env : Env) (cf to : Bool) (r : PV)
    (hCf : M.fn "self.is_tx_transmitting_cf" [] env = .ok (pbool cf))
    (hTo : cf = true → M.fn "self.timer_tx_stmin.is_timed_out" [] env = .ok (pbool to))
    (hRem : cf = true → to = false → M.fn "self.timer_tx_stmin.remaining" [] env = .ok r) :
    runFn M env Src.TransportLayerLogic_next_cf_delay = .ok (if cf then (if to then pint 0 else r) else pnone, env) := by
  cases cf with
  | false =>
    simp [runFn, Src.TransportLayerLogic_next_cf_delay, execBlock, execStmt, eval, evalArgs,
      evalBuiltin_none "self.is_tx_transmitting_cf" _ (by decide), hCf]
  | true =>
    have hTo' := hTo rfl
    cases to with
    | true =>
      simp [runFn, Src.TransportLayerLogic_next_cf_delay, execBlock, execStmt, eval, evalArgs,
        evalBuiltin_none "self.is_tx_transmitting_cf" _ (by decide), hCf,
        evalBuiltin_none "self.timer_tx_stmin.is_timed_out" _ (by decide), hTo']
    | false =>
      have hRem' := hRem rfl rfl
      simp [runFn, Src.TransportLayerLogic_next_cf_delay, execBlock, execStmt, eval, evalArgs,
        evalBuiltin_none "self.is_tx_transmitting_cf" _ (by decide), hCf,
        evalBuiltin_none "self.timer_tx_stmin.is_timed_out" _ (by decide), hTo',
        evalBuiltin_none "self.timer_tx_stmin.remaining" _ (by decide), hRem']

/-- the reference: the wait before the next Consecutive Frame, on the model (`r` = how the remaining time is shown) -/
def cfDelayOf (s : State) (now : Nat) (r : PV) : PV :=
  if s.txState = .transmitCf then (if s.timerStmin.timedOut now then pint 0 else r) else pnone

/-- ... with the remaining time in seconds (exact rational) -/
def nextCfDelay (s : State) (now : Nat) : PV := cfDelayOf s now (secs (s.timerStmin.remaining now))

/-- **`next_cf_delay()` = `cfDelayOf`**: `None` when not transmitting CFs, `0` when the STmin timer (model: `Timer.timedOut`) has timed
    out, otherwise the callee's value - the callees answering what their own agreement theorems prove
    (`is_tx_transmitting_cf_agrees`, `timer_is_timed_out_agrees` / `_linked`, `timer_remaining_agrees`) -/
theorem next_cf_delay_agrees (s : State) (now : Nat) (M : Meths) (env : Env) (r : PV)
    (hCf : M.fn "self.is_tx_transmitting_cf" [] env = .ok (pbool (decide (s.txState = .transmitCf))))
    (hTo : s.txState = .transmitCf → M.fn "self.timer_tx_stmin.is_timed_out" [] env = .ok (pbool (s.timerStmin.timedOut now)))
    (hRem : s.txState = .transmitCf → s.timerStmin.timedOut now = false → M.fn "self.timer_tx_stmin.remaining" [] env = .ok r) :
    runFn M env Src.TransportLayerLogic_next_cf_delay = .ok (cfDelayOf s now r, env) := by
  rw [next_cf_delay_run M env (decide (s.txState = .transmitCf)) (s.timerStmin.timedOut now) r hCf
    (fun h => hTo (by simpa using h)) (fun h h' => hRem (by simpa using h) h')]
  by_cases h : s.txState = .transmitCf <;> simp [cfDelayOf, h]

/-- while Consecutive Frames are being transmitted the value is never `None` (the `assert delay is not None` of `_main_thread_fn`) -/
theorem cfDelayOf_ne_none (s : State) (now : Nat) (r : PV) (h : s.txState = .transmitCf) (hr : r ≠ pnone) : cfDelayOf s now r ≠ pnone := by
  unfold cfDelayOf
  rw [if_pos h]
  split
  · simp [pint, pnone]
  · exact hr

/-- the `self.start_time` / `self.timeout` of the sub-object `self.timer_tx_stmin`, as the caller's environment holds them -/
def stminView (env : Env) : Env := fun k =>
  if k = "self.start_time" then env "self.timer_tx_stmin.start_time"
  else if k = "self.timeout" then env "self.timer_tx_stmin.timeout"
  else constEnv k

theorem timerEnv_apply (t : Timer) (k : String) :
    timerEnv t k = if k = "self.start_time" then some (optPV t.start) else if k = "self.timeout" then some (pint t.timeout) else constEnv k := by
  unfold timerEnv
  split <;> simp_all

/-- in an environment that shows the transmit side of `s`, the view is MiscTimer's presentation of `s.timerStmin` -/
theorem stminView_eq (s : State) (env : Env) (hE : Has env (txAttrs s)) : stminView env = timerEnv s.timerStmin := by
  obtain ⟨-, -, -, -, -, -, -, -, -, -, h11, h12, -⟩ := has_txAttrs hE
  funext k
  rw [timerEnv_apply]
  simp only [stminView, h11, h12]

/-- the three callees of `next_cf_delay`, each resolved by INTERPRETING its source: `is_tx_transmitting_cf` on the same object, the two
    `Timer` methods on the sub-object `self.timer_tx_stmin` (their own callees interpreted in turn: `timerMethsSrc`, `secMeths`) -/
def cfMeths (now : Nat) : Meths where
  fn name args env :=
    match name, args with
    | "self.is_tx_transmitting_cf", [] => retM noMeths env Src.TransportLayerLogic_is_tx_transmitting_cf
    | "self.timer_tx_stmin.is_timed_out", [] => retM (timerMethsSrc now) (stminView env) Src.Timer_is_timed_out
    | "self.timer_tx_stmin.remaining", [] => retM (secMeths now) (stminView env) Src.Timer_remaining
    | _, _ => .error (.unsupported ("call " ++ name))
  proc name _ _ := .error (.unsupported ("call " ++ name))

/-- **`next_cf_delay()` = `nextCfDelay`, on the sources alone** (five functions composed: `next_cf_delay`, `is_tx_transmitting_cf`,
    `Timer.is_timed_out`, `Timer.remaining`, `Timer.remaining_ns` + `is_stopped`, `elapsed_ns`), for every state, in every environment
    that shows its transmit side; the clock monotonic since the STmin timer was started (needed for `remaining_ns` only:
    `remaining_ns_needs_mono`).  The value is `None` / the `int` `0` / the remaining nanoseconds of the model's timer as seconds. -/
theorem next_cf_delay_linked (s : State) (now : Nat) (env : Env) (hE : Has env (txAttrs s)) (hC : Has env txConsts)
    (hmono : Mono s.timerStmin now) :
    runFn (cfMeths now) env Src.TransportLayerLogic_next_cf_delay = .ok (nextCfDelay s now, env) := by
  have hv := stminView_eq s env hE
  refine next_cf_delay_agrees s now (cfMeths now) env _ ?_ (fun _ => ?_) (fun _ _ => ?_)
  · show retM noMeths env Src.TransportLayerLogic_is_tx_transmitting_cf = _
    rw [retM, is_tx_transmitting_cf_agrees_has s noMeths env hE hC]; rfl
  · show retM (timerMethsSrc now) (stminView env) Src.Timer_is_timed_out = _
    rw [hv, timer_is_timed_out_linked]
  · show retM (secMeths now) (stminView env) Src.Timer_remaining = _
    rw [hv, retM, timer_remaining_linked _ now hmono]; rfl

/-- **The assumptions `rxActive`, `txCf`, `cfDelay` of `Thr.WorkerPrims` (ThreadedWorker.lean) discharged from the sources.**
    For any `Meths` whose entries `self.is_rx_active` / `self.is_tx_transmitting_cf` / `self.next_cf_delay` ARE the interpreted sources
    (callees resolved by the same `Meths`), and any core relation `R` that shows `rx_state`, `tx_state` and the two enum constants:
    * `rxActive`, `txCf` hold (no further assumption);
    * `cfDelay` (`∃ d : Int, next_cf_delay() = pint d` while CFs are transmitted) holds PROVIDED the two `Timer` methods answer a `bool`
      and an `int`.  `pint d` is ThreadedWorker's convention "an integer stands for each float" (`Spec.float`); under the exact
      presentation of this file the value is `0` or `secs n` (`next_cf_delay_linked`), which is not of the form `pint d` when the timer
      has not timed out: `cfDelay` as stated can then not be instantiated, its statement would have to read `∃ v, v ≠ None`
      (`cfDelayOf_ne_none`) with `delay > 0` on a rational (`delay_gt_zero_secs`).
    `waitFunc` and `throttled` are passed through. -/
theorem workerPrims_of_src {M : Meths} {R : Env → State → Prop}
    (hR : ∀ env s, R env s → env "self.rx_state" = some (pubRxStPV s.rxState) ∧ env "self.RxState.IDLE" = some (pubRxStPV .idle) ∧
      env "self.tx_state" = some (txStPV s.txState) ∧ env "self.TxState.TRANSMIT_CF" = some (txStPV .transmitCf))
    (h1 : ∀ env, M.fn "self.is_rx_active" [] env = retM M env Src.TransportLayerLogic_is_rx_active)
    (h2 : ∀ env, M.fn "self.is_tx_transmitting_cf" [] env = retM M env Src.TransportLayerLogic_is_tx_transmitting_cf)
    (h3 : ∀ env, M.fn "self.next_cf_delay" [] env = retM M env Src.TransportLayerLogic_next_cf_delay)
    (hTo : ∀ env, ∃ b : Bool, M.fn "self.timer_tx_stmin.is_timed_out" [] env = .ok (pbool b))
    (hRem : ∀ env, ∃ d : Int, M.fn "self.timer_tx_stmin.remaining" [] env = .ok (pint d))
    (hW : ∀ (env : Env) (v : PV), M.proc "self.params.wait_func" [v] env = .ok env)
    (hT : ∀ (env : Env), ∃ b : Bool, M.fn "self.is_tx_throttled" [] env = .ok (pbool b)) : Thr.WorkerPrims M R where
  rxActive := fun env s h => by
    obtain ⟨a, b, -, -⟩ := hR env s h
    rw [h1, retM, is_rx_active_agrees s M env a b]; rfl
  txCf := fun env s h => by
    obtain ⟨-, -, c, d⟩ := hR env s h
    rw [h2, retM, is_tx_transmitting_cf_agrees s M env c d]; rfl
  cfDelay := fun env s h hcf => by
    obtain ⟨-, -, c, d⟩ := hR env s h
    obtain ⟨b, hb⟩ := hTo env
    obtain ⟨r, hr⟩ := hRem env
    have hc : M.fn "self.is_tx_transmitting_cf" [] env = .ok (pbool true) := by
      rw [h2, retM, is_tx_transmitting_cf_agrees s M env c d, hcf]; rfl
    refine ⟨if b then 0 else r, ?_⟩
    rw [h3, retM, next_cf_delay_run M env true b (pint r) hc (fun _ => hb) (fun _ _ => hr)]
    cases b <;> rfl
  waitFunc := hW
  throttled := hT

/-- `delay > 0` (the test of `_main_thread_fn`) on a delay shown as exact seconds: the remaining nanoseconds are positive -/
theorem delay_gt_zero_secs (n : Int) : evalCmp .gt (secs n) (pint 0) = .ok (pbool (decide (0 < n))) := by
  simp [secs, evalCmp, isNumber, numLt, PyVal.isInt, PyVal.intVal, Except.map]

end Isotp.PyAgree.Small
