import Isotp.Process
/-
  C05 — receiver is safe on arbitrary bus traffic (property theorems only).
-/
namespace Isotp.C05
open Isotp State

/-- `_process_rx` has no exception site: whatever the frame, the exception flag is untouched. -/
theorem processRx_no_raise (s : State) (m : CanMsg) : (s.processRx m).1.exc = s.exc := by
  unfold processRx startReception
  grind [deliver, stopReceiving, State.error, emit, requestFc, startRxCfTimer]

end Isotp.C05
