import Isotp.Proofs.Tx
import Isotp.Proofs.Req
/-
  Network-level safety (C01 / C10), part 2c: a request built from a bytes payload (the generator yields at least the
  declared number of values) never makes `_process_tx` report `BadGeneratorError`.
  `NoBG s`: the generator of the request in transmission and of every queued request covers what is still to be
  pulled. Stage decomposition of Proofs/Req.lean (C12).
-/
namespace Isotp.NetP
open Isotp Isotp.State

/-- the generator has not ended early and still yields at least what remains to be pulled -/
def Cov (r : Req) : Prop := r.depletedFlag = false ∧ r.consumed ≤ r.size ∧ r.size - r.consumed ≤ r.src.length

def NoBG (s : State) : Prop := (∀ r, s.active = some r → Cov r) ∧ (∀ r ∈ s.txQueue, Cov r ∧ r.consumed = 0)

/-- the log is extended by events other than a `BadGenerator` report -/
def NoBgExt (l l' : List Ev) : Prop := ∃ new, l' = new ++ l ∧ ∀ t, Ev.err t .BadGenerator ∉ new

theorem NoBgExt.refl (l : List Ev) : NoBgExt l l := ⟨[], rfl, by simp⟩
theorem NoBgExt.trans {a b c : List Ev} (h1 : NoBgExt a b) (h2 : NoBgExt b c) : NoBgExt a c := by
  obtain ⟨n1, rfl, p1⟩ := h1
  obtain ⟨n2, rfl, p2⟩ := h2
  exact ⟨n2 ++ n1, by simp, fun t ht => (List.mem_append.mp ht).elim (p2 t) (p1 t)⟩
theorem NoBgExt.cons (l : List Ev) (e : Ev) (he : ∀ t, e ≠ Ev.err t .BadGenerator) : NoBgExt l (e :: l) :=
  ⟨[e], rfl, fun t ht => by simp only [List.mem_singleton] at ht; exact he t ht.symm⟩

structure Bg (s s' : State) : Prop where
  inv : NoBG s'
  log : NoBgExt s.log s'.log

theorem Bg.trans' {a b c : State} (h1 : Bg a b) (h2 : Bg b c) : Bg a c := ⟨h2.inv, h1.log.trans h2.log⟩

/-- same requests (or the active one dropped), same log -/
theorem Bg.same {s s' : State} (h : NoBG s) (ha : s'.active = s.active ∨ s'.active = none) (hq : s'.txQueue = s.txQueue)
    (hl : s'.log = s.log) : Bg s s' := by
  refine ⟨⟨?_, by rw [hq]; exact h.2⟩, by rw [hl]; exact NoBgExt.refl _⟩
  intro r hr
  rcases ha with ha | ha
  · exact h.1 r (ha ▸ hr)
  · rw [ha] at hr; cases hr

theorem Bg.err {s s' : State} (h : NoBG s) (ha : s'.active = s.active ∨ s'.active = none) (hq : s'.txQueue = s.txQueue)
    (hl : s'.log = s.log) (e : Err) (he : e ≠ .BadGenerator) : Bg s (s'.error e) := by
  refine ⟨(Bg.same h ha hq hl).inv, ?_⟩
  show NoBgExt s.log (.err s'.now e :: s'.log)
  rw [hl]
  exact NoBgExt.cons _ _ (by intro t ht; cases ht; exact he rfl)

theorem Bg.stop {s s' : State} (h : NoBG s) (hq : s'.txQueue = s.txQueue) (hl : NoBgExt s.log s'.log) (b : Bool) :
    Bg s (s'.stopSending b) := by
  have hf := C12.stopSending_fields s' b
  have hinv : NoBG (s'.stopSending b) := by
    constructor
    · intro r hr; rw [hf.2.2.2.2.2.1] at hr; cases hr
    · rw [hf.1, hq]; exact h.2
  refine ⟨hinv, hl.trans ?_⟩
  unfold stopSending
  cases s'.active with
  | none => exact NoBgExt.refl _
  | some r => exact NoBgExt.cons _ _ (by intro t ht; cases ht)

theorem Bg.errStop {s s' : State} (h : NoBG s) (hq : s'.txQueue = s.txQueue) (hl : s'.log = s.log) (e : Err)
    (he : e ≠ .BadGenerator) (b : Bool) : Bg s ((s'.error e).stopSending b) :=
  Bg.stop (s' := s'.error e) h hq (by
    show NoBgExt s.log (.err s'.now e :: s'.log)
    rw [hl]; exact NoBgExt.cons _ _ (by intro t ht; cases ht; exact he rfl)) b

theorem Bg.stopErr {s s' : State} (h : NoBG s) (hq : s'.txQueue = s.txQueue) (hl : s'.log = s.log) (e : Err)
    (he : e ≠ .BadGenerator) (b : Bool) : Bg s ((s'.stopSending b).error e) := by
  have h1 := Bg.stop h hq (by rw [hl]; exact NoBgExt.refl _ : NoBgExt s.log s'.log) b
  exact ⟨h1.inv, h1.log.trans (NoBgExt.cons _ _ (by intro t ht; cases ht; exact he rfl))⟩

/-- closes a leaf goal (`h : NoBG s` in the context) -/
macro "bg_leaf" h:ident : tactic => `(tactic| first
  | exact Bg.same $h (Or.inl (by rfl)) (by rfl) (by rfl)
  | exact Bg.same $h (Or.inr (by rfl)) (by rfl) (by rfl)
  | exact Bg.err $h (Or.inl (by rfl)) (by rfl) (by rfl) _ (by decide)
  | exact Bg.stop $h (by rfl) (by exact NoBgExt.refl _) _
  | exact Bg.errStop $h (by rfl) (by rfl) _ (by decide) _
  | exact Bg.stopErr $h (by rfl) (by rfl) _ (by decide) _)

theorem Bg.ite (c : Prop) [Decidable c] {s a b : State} (ha : Bg s a) (hb : Bg s b) : Bg s (if c then a else b) := by
  split <;> assumption

/-! ### the generator under `Cov` -/

theorem consume_cov (r : Req) (n : Nat) (e : Bool) (h : Cov r) (hn : n ≤ r.remaining) :
    (∃ d, (r.consume n e).2 = some d) ∧ Cov (r.consume n e).1 ∧
      ((r.consume n e).1.depleted = true → (r.consume n e).1.remaining = 0) := by
  obtain ⟨h1, h2, h3⟩ := h
  have hn' : n ≤ r.size - r.consumed := hn
  rw [Proofs.consume_ok r n e h2 hn (by omega)]
  refine ⟨⟨_, rfl⟩, ⟨h1, by simp only; omega, by simp only [List.length_drop]; omega⟩, ?_⟩
  intro hd
  simp only [Req.depleted, h1, Bool.or_false, decide_eq_true_eq] at hd
  simp only [Req.remaining]
  omega

/-! ### the stages -/

theorem Bg.handleFc {s : State} (h : NoBG s) (f : FcFrame) : Bg s (s.handleFc f) := by
  unfold State.handleFc
  dsimp only
  repeat' split
  all_goals bg_leaf h

theorem Bg.txFc {s : State} (h : NoBG s) : Bg s (C12.txFc s).1 := by
  unfold C12.txFc
  dsimp only
  split
  · split
    · bg_leaf h
    · exact (Bg.same h (Or.inl rfl) rfl rfl : Bg s { s with lastFc := none }).trans'
        (Bg.handleFc (Bg.same h (Or.inl rfl) rfl rfl : Bg s { s with lastFc := none }).inv _)
  · bg_leaf h

theorem Bg.txTimeout {s : State} (h : NoBG s) : Bg s (C12.txTimeout s) := by
  unfold C12.txTimeout
  exact Bg.ite _ (Bg.errStop h rfl rfl _ (by decide) _) (Bg.same h (Or.inl rfl) rfl rfl)

theorem Bg.txDepl {s : State} (h : NoBG s) : Bg s (C12.txDepl s) := by
  unfold C12.txDepl
  exact Bg.ite _ (Bg.stop h rfl (NoBgExt.refl _) _) (Bg.same h (Or.inl rfl) rfl rfl)

/-- after the generator was consumed: the request in transmission is `r'` -/
theorem Bg.consumeActive {s : State} (h : NoBG s) (r : Req) (n : Nat) (e : Bool) (hc : Cov (r.consume n e).1) :
    Bg s (s.consumeActive r n e).1 := by
  obtain ⟨l, hl, -⟩ := C12.consumeActive_fst s r n e
  have hlog : NoBgExt s.log (s.consumeActive r n e).1.log := by
    unfold State.consumeActive
    dsimp only
    split
    · exact NoBgExt.cons _ _ (by intro t ht; cases ht)
    · exact NoBgExt.refl _
  refine ⟨?_, hlog⟩
  rw [hl]
  constructor
  · intro x hx; simp only [Option.some.injEq] at hx; exact hx ▸ hc
  · exact h.2

theorem Bg.sfTail {s : State} (h : NoBG s) (r : Req) (b : Bool) (allowed : Nat) (payload : Bytes) :
    Bg s (C12.sfTail s r b allowed (some payload)).1 := by
  unfold C12.sfTail
  dsimp only
  repeat' split
  all_goals bg_leaf h

theorem Bg.ffTail {s : State} (h : NoBG s) (total : Nat) (allowed : Nat) (payload : Bytes) :
    Bg s (C12.ffTail s total allowed (some payload)).1 := by
  unfold C12.ffTail
  dsimp only
  repeat' split
  all_goals bg_leaf h

theorem ffDataLen_lt (s : State) (r : Req) (h : ¬ (r.size + C12.sfOff s r + s.txPrefixLen ≤ s.cfg.txDl)) :
    C12.ffDataLen s r.size ≤ r.size := by
  unfold C12.ffDataLen
  unfold C12.sfOff at h
  split at h <;> split <;> omega

/-- start of a transmission with a fresh covered request -/
theorem Bg.startTx {s : State} (h : NoBG s) (r : Req) (allowed : Nat) (hc : Cov r) (h0 : r.consumed = 0) :
    Bg s (s.startTx r allowed).1 := by
  rw [C12.startTx_eq]
  split
  · have hn : r.size ≤ r.remaining := by simp [Req.remaining, h0]
    obtain ⟨⟨d, hd⟩, hc', -⟩ := consume_cov r r.size true hc hn
    have h1 := Bg.consumeActive h r r.size true hc'
    rw [C12.consumeActive_snd, hd]
    exact h1.trans' (Bg.sfTail h1.inv _ _ _ _)
  · rename_i hff
    have hn : C12.ffDataLen s r.size ≤ r.remaining := by
      simp only [Req.remaining, h0, Nat.sub_zero]; exact ffDataLen_lt s r hff
    obtain ⟨⟨d, hd⟩, hc', -⟩ := consume_cov r (C12.ffDataLen s r.size) true hc hn
    have h0' : Bg s ({ s with txFrameLen := r.size } : State) := Bg.same h (Or.inl rfl) rfl rfl
    have h1 := Bg.consumeActive h0'.inv r (C12.ffDataLen s r.size) true hc'
    rw [C12.consumeActive_snd, hd]
    exact (h0'.trans' h1).trans' (Bg.ffTail h1.inv _ _ _)

theorem Bg.readTxQueue (allowed : Nat) (q : List Req) : ∀ {s : State}, NoBG s → (∀ r ∈ q, Cov r ∧ r.consumed = 0) →
    s.active = none → Bg s (s.readTxQueue allowed q).1 := by
  induction q with
  | nil =>
    intro s h _ _
    exact ⟨⟨h.1, by intro r hr; cases hr⟩, NoBgExt.refl _⟩
  | cons r rest ih =>
    intro s h hq ha
    have hrest : ∀ x ∈ rest, Cov x ∧ x.consumed = 0 := fun x hx => hq x (List.mem_cons_of_mem _ hx)
    cases hd : r.depleted
    · rw [C12.readTxQueue_start _ _ _ _ hd]
      have h1 : NoBG ({ s with txQueue := rest, active := some r } : State) := by
        constructor
        · intro x hx; simp only [Option.some.injEq] at hx; exact hx ▸ (hq r List.mem_cons_self).1
        · exact hrest
      have := Bg.startTx h1 r allowed (hq r List.mem_cons_self).1 (hq r List.mem_cons_self).2
      exact ⟨this.inv, this.log⟩
    · rw [C12.readTxQueue_depl _ _ _ _ hd]
      have h1 : NoBG ({ s with txQueue := rest, active := none, log := .done r.id true :: s.log } : State) := by
        constructor
        · intro x hx; cases hx
        · exact hrest
      have := ih h1 hrest rfl
      exact ⟨this.inv, (NoBgExt.cons s.log (.done r.id true) (by intro t ht; cases ht)).trans this.log⟩

theorem Bg.cfTail {s : State} (h : NoBG s) (r' : Req) (rbs : Nat) (res : Option Bytes)
    (hdep : r'.depleted = true → r'.remaining = 0) : Bg s (C12.cfTail s r' rbs res).1 := by
  unfold C12.cfTail
  cases res with
  | none => bg_leaf h
  | some payload =>
    dsimp only
    by_cases hp : payload.length > 0
    · simp only [hp, if_true]
      cases hm : makeTxMsg s.cfg s.addr (s.addr.tx.txId .physical) (s.addr.tx.txPrefix ++ [u8 (0x20 + s.txSeq)] ++ payload) with
      | none => simp only [if_true]; bg_leaf h
      | some msg =>
        simp only [Bool.false_eq_true, if_false]
        by_cases hd : r'.depleted = true
        · have := hdep hd
          simp only [hd, if_true, this, Nat.lt_irrefl, gt_iff_lt, if_false]
          bg_leaf h
        · simp only [hd, Bool.false_eq_true, if_false]
          repeat' split
          all_goals bg_leaf h
    · simp only [hp, if_false, Bool.false_eq_true]
      by_cases hd : r'.depleted = true
      · have := hdep hd
        simp only [hd, if_true, this, Nat.lt_irrefl, gt_iff_lt, if_false]
        bg_leaf h
      · simp only [hd, Bool.false_eq_true, if_false]
        repeat' split
        all_goals bg_leaf h

theorem Bg.transmitCf {s : State} (h : NoBG s) (allowed : Nat) : Bg s (s.transmitCf allowed).1 := by
  rw [C12.transmitCf_eq]
  split
  · bg_leaf h
  · bg_leaf h
  · rename_i rbs r hrbs hact
    split
    · split
      · have hc := h.1 r hact
        have hn : C12.cfLen s r ≤ r.remaining := by unfold C12.cfLen; omega
        obtain ⟨-, hc', hdep⟩ := consume_cov r (C12.cfLen s r) false hc hn
        have h1 := Bg.consumeActive h r (C12.cfLen s r) false hc'
        rw [C12.consumeActive_snd]
        exact h1.trans' (Bg.cfTail h1.inv _ _ _ hdep)
      · bg_leaf h
    · bg_leaf h

theorem Bg.txFsm {s : State} (h : NoBG s) (hidle : s.txState = .idle → s.active = none) (allowed : Nat) :
    Bg s (C12.txFsm s allowed).1 := by
  unfold C12.txFsm
  cases hst : s.txState with
  | idle =>
    have := Bg.readTxQueue allowed s.txQueue h h.2 (hidle hst)
    exact this
  | waitFc => bg_leaf h
  | transmitCf => exact Bg.transmitCf h _
  | sfStandby =>
    dsimp only
    cases hsb : s.standby with
    | none => bg_leaf h
    | some msg =>
      dsimp only
      repeat' split
      all_goals bg_leaf h
  | ffStandby =>
    dsimp only
    cases hsb : s.standby with
    | none => bg_leaf h
    | some msg =>
      dsimp only
      repeat' split
      all_goals bg_leaf h

theorem Bg.txFinish {x : State × Option CanMsg × Bool} (h : NoBG x.1) : Bg x.1 (C12.txFinish x).1 := by
  obtain ⟨s, out, imm⟩ := x
  unfold C12.txFinish
  dsimp only
  repeat' split
  all_goals bg_leaf h

theorem Bg.txPend {s : State} (h : NoBG s) : Bg s (C12.txPend s).1 := by
  have hf := C12.txPend_fields s
  exact Bg.same h (Or.inl hf.2.2.2.2.2.1) hf.1 hf.2.2.2.2.1

/-- **No `BadGenerator`.** One `_process_tx` pass from a state whose generators cover what is still to be pulled:
    the same holds afterwards, and the pass does not report `BadGeneratorError`. -/
theorem Bg.processTx {s : State} (h : NoBG s) (hidle : C12.Idle s) : Bg s s.processTx.1 := by
  rw [C12.processTx_eq]
  have a1 := Bg.txPend h
  have i1 := C12.txPend_idle s hidle
  split
  · rename_i s1 hp; rw [hp] at a1; exact a1
  · rename_i s1 msg hp; rw [hp] at a1; exact a1
  · rename_i s1 hp
    rw [hp] at a1 i1
    have a2 := Bg.txFc a1.inv
    have i2 := C12.txFc_idle s1 i1
    split
    · rename_i s2 hf; rw [hf] at a2; exact a1.trans' a2
    · rename_i s2 hf
      rw [hf] at a2 i2
      have a3 := Bg.txTimeout a2.inv
      have i3 := C12.txTimeout_idle s2 i2
      split
      · exact (a1.trans' a2).trans' (a3.trans' (Bg.same a3.inv (Or.inl rfl) rfl rfl))
      · have a4 := Bg.txDepl a3.inv
        have i4 := C12.txDepl_idle _ i3
        have a5 := Bg.txFsm a4.inv i4 (s.rl.allowedBytes s.cfg.rlBitMax)
        exact ((((a1.trans' a2).trans' a3).trans' a4).trans' a5).trans' (Bg.txFinish a5.inv)

end Isotp.NetP
