import Isotp.Proofs.DuplexLive4
/-
  C10, liveness half, part 5: the abstract duplex network always reaches its final state — no deadlock, for ANY frame
  counts, blocksizes and separation times — provided the timeouts cover the whole exchange.

  * `NInv`: the invariant of the abstract network at the beginning of a round; `netM`: its potential.
  * `round_ok`: a round succeeds, keeps the invariant, does not increase the potential, and decreases it unless the
    network is final (`stuck_final`: if neither pass has anything to do, both transfers are complete).
  * `abs_terminates`, `absDone_general`: the final state is reached within `4·(nA + nB) + 2` rounds (an upper bound).
-/
namespace Isotp.DuplexLive
open Isotp

/-- parameters of the two layers that belong together -/
structure ParOk (PA PB : Par) : Prop where
  n   : PB.n = PA.n'
  n'  : PB.n' = PA.n
  bs  : PB.bs = PA.bs'
  bs' : PB.bs' = PA.bs
  nA  : 1 ≤ PA.n
  nB  : 1 ≤ PB.n

/-- **The invariant of the abstract network** at the beginning of a round -/
structure NInv (PA PB : Par) (n : AN) : Prop where
  inv    : PInv PA n.R n.b { n.a with out := [], done := false }
  ap     : n.a.pend = false
  af     : n.a.fc = false
  freshA : ∀ k j r, n.a.tx = .T k j r → r < n.R
  freshB : ∀ k j r, n.b.tx = .T k j r → r < n.R
  dA     : n.a.tx = .D → n.doneA = true
  dB     : n.b.tx = .D → n.doneB = true

/-- the potential of the abstract network -/
def netM (PA PB : Par) (n : AN) : Nat := mu PA n.a + mu PB n.b

/-- a direction in which nothing is in flight and the sender neither transmits nor has anything queued is complete -/
theorem DirInv.idle_final {n bs R : Nat} {tx : TxA} {rx : RxA} (h : DirInv n bs R tx false 0 [] rx false)
    (hI : tx ≠ .I) (hT : timeDriven tx = false) : tx = .D ∧ rx = .D := by
  obtain ⟨n1, le, data, acct, nob, txok, rxok, pnd⟩ := h
  have hlen : sentOf n tx - gotOf n rx = 0 := by
    have := congrArg List.length data
    simpa using this.symm
  have heq : gotOf n rx = sentOf n tx := by omega
  cases tx with
  | I => exact absurd rfl hI
  | T k j r => cases hT
  | W k r =>
    simp only [sentOf] at heq
    simp only [fcNeed, heq, if_true, Bool.toNat_false] at acct
    omega
  | D =>
    refine ⟨rfl, ?_⟩
    simp only [sentOf] at heq
    cases rx with
    | D => rfl
    | I => simp only [gotOf] at heq; omega
    | S i t => simp only [gotOf, RxOk] at heq rxok; omega

theorem not_moves {P : Par} {R : Nat} {al : AL} (h : ¬ Moves P R al) (hfresh : ∀ k j r, al.tx = .T k j r → r < R) :
    al.tx ≠ .I ∧ al.inbox = [] ∧ timeDriven al.tx = false := by
  unfold Moves at h
  refine ⟨fun hh => h (Or.inl hh), ?_, ?_⟩
  · cases hib : al.inbox with
    | nil => rfl
    | cons a l => exact absurd (Or.inr (Or.inl (by rw [hib]; simp))) h
  · cases htx : al.tx with
    | T k j r => exact absurd (Or.inr (Or.inr ⟨k, j, r, htx, Or.inr (hfresh k j r htx)⟩)) h
    | I => rfl
    | W k r => rfl
    | D => rfl

theorem mu_congr (P : Par) {al al' : AL} (h1 : al'.tx = al.tx) (h2 : al'.fc = al.fc) (h3 : al'.rx = al.rx) :
    mu P al' = mu P al := by
  unfold mu; rw [h1, h2, h3]

/-- **One round of the abstract network** succeeds (no timer expires while the round number is within the timeouts),
    keeps the invariant, never increases the potential, and decreases it unless the network is final. -/
theorem round_ok {PA PB : Par} (hP : ParOk PA PB) {n : AN} (h : NInv PA PB n)
    (hK : n.R ≤ PA.kCf ∧ n.R ≤ PA.kFc ∧ n.R ≤ PB.kCf ∧ n.R ≤ PB.kFc) :
    ∃ n', absRound PA PB n = some n' ∧ NInv PA PB n' ∧ n'.R = n.R + 1 ∧ netM PA PB n' ≤ netM PA PB n ∧
      (n.final = false → netM PA PB n' < netM PA PB n) := by
  obtain ⟨kA1, kA2, kB1, kB2⟩ := hK
  -- A's pass
  obtain ⟨a1, ea, pa⟩ := pass_ok (y := n.b) kA1 kA2 h.inv h.ap h.af
  -- B's pass
  have hB0 : PInv PB n.R a1 { ({ n.b with inbox := n.b.inbox ++ a1.out } : AL) with out := [], done := false } := by
    refine ⟨?_, ?_, pa.pend, pa.fc⟩
    · show DirInv PB.n PB.bs' n.R n.b.tx n.b.fc (fcsOf (n.b.inbox ++ a1.out)) (dataOf a1.inbox ++ dataOf []) a1.rx a1.pend
      rw [hP.n, hP.bs', fcsOf_append]
      simpa [dataOf] using pa.inv.inn
    · show DirInv PB.n' PB.bs n.R a1.tx a1.fc (fcsOf a1.inbox + fcsOf []) (dataOf (n.b.inbox ++ a1.out)) n.b.rx n.b.pend
      rw [hP.n', hP.bs, dataOf_append]
      simpa [fcsOf] using pa.inv.out
  obtain ⟨b1, eb, pb⟩ := pass_ok (y := a1) kB1 kB2 hB0 h.inv.yp h.inv.yf
  refine ⟨_, by unfold absRound; rw [ea]; simp only []; rw [eb], ?_, rfl, ?_, ?_⟩
  · -- the invariant at the beginning of the next round
    refine ⟨⟨?_, ?_, pb.pend, pb.fc⟩, pa.pend, pa.fc, ?_, ?_, ?_, ?_⟩
    · show DirInv PA.n PA.bs' (n.R + 1) a1.tx a1.fc (fcsOf (a1.inbox ++ b1.out)) (dataOf b1.inbox ++ dataOf []) b1.rx b1.pend
      have := pb.inv.inn.mono
      rw [hP.n', hP.bs] at this
      rw [fcsOf_append]
      simpa [dataOf] using this
    · show DirInv PA.n' PA.bs (n.R + 1) b1.tx b1.fc (fcsOf b1.inbox + fcsOf []) (dataOf (a1.inbox ++ b1.out)) a1.rx a1.pend
      have := pb.inv.out.mono
      rw [hP.n, hP.bs'] at this
      rw [dataOf_append]
      simpa [fcsOf] using this
    · intro k j r htx
      have := pa.inv.out.txok
      have htx' : a1.tx = .T k j r := htx
      rw [htx'] at this
      simp only [TxOk] at this
      show r < n.R + 1
      omega
    · intro k j r htx
      have := pb.inv.out.txok
      have htx' : b1.tx = .T k j r := htx
      rw [htx'] at this
      simp only [TxOk] at this
      show r < n.R + 1
      omega
    · intro hd
      show (n.doneA || a1.done) = true
      rcases pa.doneD hd with r | r
      · rw [h.dA r]; rfl
      · rw [r]; simp
    · intro hd
      show (n.doneB || b1.done) = true
      rcases pb.doneD hd with r | r
      · rw [h.dB r]; rfl
      · rw [r]; simp
  · -- the potential does not increase
    have hma : mu PA a1 ≤ mu PA n.a := pa.mule
    have hmb : mu PB b1 ≤ mu PB n.b := pb.mule
    show mu PA a1 + mu PB b1 ≤ mu PA n.a + mu PB n.b
    omega
  · -- … and decreases unless the network is final
    intro hnf
    have hma : mu PA a1 ≤ mu PA n.a := pa.mule
    have hmb : mu PB b1 ≤ mu PB n.b := pb.mule
    show mu PA a1 + mu PB b1 < mu PA n.a + mu PB n.b
    by_cases hmA : Moves PA n.R { n.a with out := [], done := false }
    · have : mu PA a1 < mu PA n.a := pa.strict hmA
      omega
    · by_cases hmB : Moves PB n.R { ({ n.b with inbox := n.b.inbox ++ a1.out } : AL) with out := [], done := false }
      · have : mu PB b1 < mu PB n.b := pb.strict hmB
        omega
      · -- neither pass has anything to do: the network is final
        exfalso
        obtain ⟨a_I, a_ib, a_T⟩ := not_moves hmA h.freshA
        obtain ⟨b_I, b_ib, b_T⟩ := not_moves hmB h.freshB
        have a_ib' : n.a.inbox = [] := a_ib
        have b_ib' : n.b.inbox = [] := by
          have : n.b.inbox ++ a1.out = [] := b_ib
          exact (List.append_eq_nil_iff.mp this).1
        have ho := h.inv.out
        have hi := h.inv.inn
        simp only [a_ib', b_ib', fcsOf, dataOf, List.append_nil, h.af, h.ap, h.inv.yp, h.inv.yf] at ho hi
        obtain ⟨ta, rb⟩ := ho.idle_final a_I a_T
        obtain ⟨tb, ra⟩ := hi.idle_final b_I b_T
        have : n.final = true := by
          unfold AN.final AL.final
          simp [ta, ra, tb, rb, a_ib', b_ib', h.af, h.ap, h.inv.yp, h.inv.yf, h.dA ta, h.dB tb]
        rw [this] at hnf; cases hnf

/-- **Termination of the abstract network**: from any state satisfying the invariant the final state is reached
    within `netM` rounds, as long as the timeouts cover `R + netM` rounds. -/
theorem abs_terminates {PA PB : Par} (hP : ParOk PA PB) : ∀ (m : Nat) (n : AN), netM PA PB n = m → NInv PA PB n →
    n.R + m ≤ PA.kCf → n.R + m ≤ PA.kFc → n.R + m ≤ PB.kCf → n.R + m ≤ PB.kFc →
    ∃ N n', N ≤ m ∧ absRounds PA PB N n = some n' ∧ n'.final = true := by
  intro m
  induction m using Nat.strongRecOn with
  | _ m ih =>
    intro n hm h k1 k2 k3 k4
    cases hf : n.final with
    | true => exact ⟨0, n, Nat.zero_le _, rfl, hf⟩
    | false =>
      obtain ⟨n1, e1, h1, hR, hle, hlt⟩ := round_ok hP h ⟨by omega, by omega, by omega, by omega⟩
      have hlt' := hlt hf
      obtain ⟨N, n', hN, e2, hf'⟩ := ih (netM PA PB n1) (by omega) n1 rfl h1 (by omega) (by omega) (by omega) (by omega)
      exact ⟨N + 1, n', by omega, by simp only [absRounds, e1]; exact e2, hf'⟩

theorem ninv_init {PA PB : Par} (hP : ParOk PA PB) : NInv PA PB {} := by
  have hA := hP.nA
  have hB : 1 ≤ PA.n' := by rw [← hP.n]; exact hP.nB
  refine ⟨⟨?_, ?_, rfl, rfl⟩, rfl, rfl, (by intro k j r hh; cases hh), (by intro k j r hh; cases hh),
    (by intro hh; cases hh), (by intro hh; cases hh)⟩
  · exact ⟨hA, Nat.le_refl _, rfl, rfl, (by intro m _ h2; simp only [sentOf] at h2; omega), trivial, trivial,
      (by intro hh; cases hh)⟩
  · exact ⟨hB, Nat.le_refl _, rfl, rfl, (by intro m _ h2; simp only [sentOf] at h2; omega), trivial, trivial,
      (by intro hh; cases hh)⟩

theorem netM_init (PA PB : Par) (hP : ParOk PA PB) : netM PA PB {} = 4 * (PA.n + PB.n) + 2 := by
  have := hP.n; have := hP.n'
  simp only [netM, mu, sentOf, gotOf, txW]
  omega

/-- **The abstract duplex machine always terminates** (any frame counts ≥ 1, any blocksizes, any separation times):
    started after the two `send` calls it is final after `4·(nA + nB) + 2` rounds (an upper bound), provided the
    timeouts cover that many rounds. -/
theorem absDone_general {PA PB : Par} (hP : ParOk PA PB)
    (k1 : 4 * (PA.n + PB.n) + 2 ≤ PA.kCf) (k2 : 4 * (PA.n + PB.n) + 2 ≤ PA.kFc)
    (k3 : 4 * (PA.n + PB.n) + 2 ≤ PB.kCf) (k4 : 4 * (PA.n + PB.n) + 2 ≤ PB.kFc) :
    absDone PA PB (4 * (PA.n + PB.n) + 2) = true := by
  have hm := netM_init PA PB hP
  obtain ⟨N, n', hN, e, hf⟩ := abs_terminates hP _ {} hm (ninv_init hP)
    (by simpa using k1) (by simpa using k2) (by simpa using k3) (by simpa using k4)
  have : absDone PA PB N = true := by unfold absDone; rw [e]; exact hf
  exact absDone_mono this hN

/-! ## progress in every round -/

theorem mu_final (P : Par) (al : AL) (h : al.final = true) : mu P al = 0 := by
  unfold AL.final at h
  simp only [Bool.and_eq_true, decide_eq_true_eq] at h
  obtain ⟨⟨⟨⟨h1, h2⟩, -⟩, -⟩, -⟩ := h
  simp [mu, h1, h2, sentOf, gotOf, txW]

theorem netM_final (PA PB : Par) (n : AN) (h : n.final = true) : netM PA PB n = 0 := by
  unfold AN.final at h
  simp only [Bool.and_eq_true] at h
  simp [netM, mu_final PA n.a h.1.1.1, mu_final PB n.b h.1.1.2]

/-- the invariant holds after any number of rounds (until the network is final) -/
theorem abs_run_inv {PA PB : Par} (hP : ParOk PA PB) (K : Nat) (k1 : K ≤ PA.kCf) (k2 : K ≤ PA.kFc) (k3 : K ≤ PB.kCf)
    (k4 : K ≤ PB.kFc) : ∀ (i : Nat) (n : AN), NInv PA PB n → n.R + netM PA PB n ≤ K →
    ∃ ni, absRounds PA PB i n = some ni ∧
      (ni.final = true ∨ (NInv PA PB ni ∧ ni.R + netM PA PB ni ≤ K)) := by
  intro i
  induction i with
  | zero => intro n h hk; exact ⟨n, rfl, Or.inr ⟨h, hk⟩⟩
  | succ i ih =>
    intro n h hk
    cases hf : n.final with
    | true =>
      obtain ⟨n', e, f⟩ := absRounds_final PA PB (i + 1) n hf
      exact ⟨n', e, Or.inl f⟩
    | false =>
      obtain ⟨n1, e1, h1, hR, hle, hlt⟩ := round_ok hP h ⟨by omega, by omega, by omega, by omega⟩
      have := hlt hf
      obtain ⟨ni, e2, hh⟩ := ih n1 h1 (by omega)
      exact ⟨ni, by simp only [absRounds, e1]; exact e2, hh⟩

/-- **No deadlock on this schedule (abstract network).** After any number `i` of rounds the next round succeeds and
    does not increase the potential; it strictly decreases it unless both transfers are complete. -/
theorem abs_progress {PA PB : Par} (hP : ParOk PA PB)
    (k1 : 4 * (PA.n + PB.n) + 2 ≤ PA.kCf) (k2 : 4 * (PA.n + PB.n) + 2 ≤ PA.kFc)
    (k3 : 4 * (PA.n + PB.n) + 2 ≤ PB.kCf) (k4 : 4 * (PA.n + PB.n) + 2 ≤ PB.kFc) (i : Nat) :
    ∃ ni n', absRounds PA PB i {} = some ni ∧ absRound PA PB ni = some n' ∧
      netM PA PB n' ≤ netM PA PB ni ∧ (ni.final = false → netM PA PB n' < netM PA PB ni) := by
  have hm := netM_init PA PB hP
  obtain ⟨ni, e, hh⟩ := abs_run_inv hP _ k1 k2 k3 k4 i {} (ninv_init hP) (by rw [hm]; simp)
  rcases hh with hf | ⟨hinv, hk⟩
  · obtain ⟨n', e', f'⟩ := absRound_final PA PB ni hf
    refine ⟨ni, n', e, e', by rw [netM_final PA PB n' f']; exact Nat.zero_le _, fun h0 => by rw [hf] at h0; cases h0⟩
  · obtain ⟨n', e', -, -, hle, hlt⟩ := round_ok hP hinv ⟨by omega, by omega, by omega, by omega⟩
    exact ⟨ni, n', e, e', hle, hlt⟩

end Isotp.DuplexLive
