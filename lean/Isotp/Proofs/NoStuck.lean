import Isotp.Proofs.DuplexLive7
/-
  C10, "no reachable state is stuck", part 1: the abstract duplex machine at ARBITRARY points of ARBITRARY schedules.

  The liveness results of DuplexLive3–5 are about the round-synchronous abstract network `AN` (links empty at the
  beginning of a round, every frame emitted is delivered before the peer's pass).  Here the abstract network gets its
  two links back (`GN`: per direction the list of frames emitted and not yet delivered), and the operations are the ones
  of the schedule space of C10: a full pass or a transmit-only pass of either layer, delivery of the first `k` frames of
  either link, `k` ticks (`GOp`, `gstep`).

  * `tl al t`: the layer `al` with the frames `t` (still on the link towards it) appended to its inbox.  The invariant of
    a pass of DuplexLive4 (`PInv`) is stated for the layer "as if everything in flight had arrived"; the steps of the
    abstract machine never look at the inbox field (`absRx_tl`, `absTx_tl`, `absTxLoop_tl`), so the step lemmas
    `absRx_ok`, `txLoop_ok` of DuplexLive4 transfer (`gRx_ok`, `gTxLoop_ok`); the loops that DO depend on where the
    inbox ends are redone (`gRxLoop_ok`, `gProcLoop_ok`, and `gProcLoopTx_ok` for the transmit-only pass `absPassTx`).
  * `GInv`: the invariant of the abstract network with links; `gstep_ok`: EVERY operation succeeds (as long as the
    round number is within the timeouts), keeps the invariant and does not increase the potential `gM` (= `netM`).
  * `gcanon_ok`, `g_terminates`: the canonical round from ANY invariant state succeeds and ends in a state with empty links that
    satisfies the round-synchronous invariant `NInv` of DuplexLive5 — from where `abs_terminates` applies.
-/
namespace Isotp.NoStuck
open Isotp Isotp.DuplexLive

/-! ## frames behind the inbox -/

/-- the layer with the frames `t` (in flight towards it) appended to its inbox -/
def tl (al : AL) (t : List Fr) : AL := { al with inbox := al.inbox ++ t }

theorem tl_nil (al : AL) : tl al [] = al := by
  cases al; simp [tl]

theorem tl_tl (al : AL) (t u : List Fr) : tl (tl al t) u = tl al (t ++ u) := by
  cases al; simp [tl]

theorem mu_tl (P : Par) (al : AL) (t : List Fr) : mu P (tl al t) = mu P al := rfl

theorem pushOut_tl (al : AL) (t : List Fr) (o : Option Fr) : pushOut (tl al t) o = tl (pushOut al o) t := by
  cases o <;> rfl

/-- `_process_rx` does not look at the inbox -/
theorem absRx_tl (P : Par) (R : Nat) (al : AL) (t : List Fr) (it : Fr) :
    absRx P R (tl al t) it = (absRx P R al it).map (fun r => (tl r.1 t, r.2)) := by
  obtain ⟨tx, fc, rx, pend, inbox, out, done⟩ := al
  unfold absRx tl
  simp only []
  cases it <;> cases rx <;> (repeat' split) <;> rfl

theorem absRx_inbox {P : Par} {R : Nat} {al al' : AL} {it : Fr} {imm : Bool}
    (h : absRx P R al it = some (al', imm)) : al'.inbox = al.inbox := by
  unfold absRx at h
  grind

theorem absFsm_tl (P : Par) (R : Nat) (al : AL) (t : List Fr) :
    absFsm P R (tl al t) = (absFsm P R al).map (fun r => (tl r.1 t, r.2.1, r.2.2)) := by
  obtain ⟨tx, fc, rx, pend, inbox, out, done⟩ := al
  unfold absFsm tl
  simp only []
  cases tx <;> (repeat' split) <;> rfl

/-- `_process_tx` does not look at the inbox -/
theorem absTx_tl (P : Par) (R : Nat) (al : AL) (t : List Fr) :
    absTx P R (tl al t) = (absTx P R al).map (fun r => (tl r.1 t, r.2.1, r.2.2)) := by
  unfold absTx
  have hm : absMail P R (tl al t) = absMail P R al := rfl
  have hp : (tl al t).pend = al.pend := rfl
  have hr : (tl al t).rx = al.rx := rfl
  rw [hm, hp, hr]
  split
  · split <;> rfl
  · split
    · rfl
    · next tx htx => exact absFsm_tl P R { al with fc := false, tx := tx } t

theorem absTxLoop_tl (P : Par) (R : Nat) (t : List Fr) : ∀ (g : Nat) (al : AL),
    absTxLoop P R g (tl al t) = (absTxLoop P R g al).map (fun r => (tl r.1 t, r.2)) := by
  intro g
  induction g with
  | zero => intro al; rfl
  | succ g ih =>
    intro al
    unfold absTxLoop
    rw [absTx_tl]
    cases absTx P R al with
    | none => rfl
    | some r =>
      obtain ⟨al', out, imm⟩ := r
      simp only [Option.map_some]
      split
      · rw [pushOut_tl]; rfl
      · split
        · rw [pushOut_tl]; exact ih _
        · rw [pushOut_tl]; rfl


/-! ## the steps and loops of a pass, with frames in flight behind the inbox -/

section steps
variable {P : Par} {R : Nat} {y al : AL} {t : List Fr}

/-- **one `_process_rx` step** with `t` still on the link: succeeds, keeps the invariant, decreases the potential -/
theorem gRx_ok (h : PInv P R y (tl al t)) {it : Fr} {rest : List Fr} (hib : al.inbox = it :: rest)
    (hp : al.pend = false) (hf : al.fc = false) (hK : R ≤ P.kCf) :
    ∃ al' imm, absRx P R { al with inbox := rest } it = some (al', imm) ∧ PInv P R y (tl al' t) ∧ al'.inbox = rest ∧
      al'.out = al.out ∧ al'.tx = al.tx ∧ al'.done = al.done ∧ imm = (al'.pend || al'.fc) ∧
      (al'.pend && al'.fc) = false ∧ mu P al' < mu P al := by
  have hib' : (tl al t).inbox = it :: (rest ++ t) := by show al.inbox ++ t = _; rw [hib]; rfl
  obtain ⟨al2, imm, e, hinv, i2, o2, t2, d2, himm, hfl, hmu⟩ := absRx_ok h hib' hp hf hK
  have e0 : ({ tl al t with inbox := rest ++ t } : AL) = tl { al with inbox := rest } t := rfl
  rw [e0, absRx_tl] at e
  cases hr : absRx P R { al with inbox := rest } it with
  | none => rw [hr] at e; cases e
  | some r =>
    obtain ⟨al', imm'⟩ := r
    rw [hr] at e
    simp only [Option.map_some, Option.some.injEq, Prod.mk.injEq] at e
    obtain ⟨rfl, rfl⟩ := e
    exact ⟨al', imm', rfl, hinv, absRx_inbox hr, o2, t2, d2, himm, hfl, hmu⟩

/-- **the inner tx loop** with `t` still on the link -/
theorem gTxLoop_ok (hK : R ≤ P.kFc) (g : Nat) (hn : need P al ≤ g) (h : PInv P R y (tl al t))
    (hpf : (al.pend && al.fc) = false) :
    ∃ al' run, absTxLoop P R g al = some (al', run) ∧ TxLoopPost P R y (tl al t) (tl al' t) run ∧
      al'.inbox = al.inbox := by
  obtain ⟨al2, run, e, post⟩ := txLoop_ok hK g (tl al t) hn h hpf
  rw [absTxLoop_tl] at e
  cases hr : absTxLoop P R g al with
  | none => rw [hr] at e; cases e
  | some r =>
    obtain ⟨al', run'⟩ := r
    rw [hr] at e
    simp only [Option.map_some, Option.some.injEq, Prod.mk.injEq] at e
    obtain ⟨rfl, rfl⟩ := e
    exact ⟨al', run', rfl, post, List.append_cancel_right post.inbox⟩

/-- what the inner rx loop guarantees -/
structure GRxLoopPost (P : Par) (R : Nat) (y : AL) (t : List Fr) (al al' : AL) (rr : Bool) : Prop where
  inv    : PInv P R y (tl al' t)
  flags  : (al'.pend && al'.fc) = false
  out    : al'.out = al.out
  tx     : al'.tx = al.tx
  done   : al'.done = al.done
  mule   : mu P al' ≤ mu P al
  len    : al'.inbox.length ≤ al.inbox.length
  strict : al.inbox ≠ [] → mu P al' < mu P al ∧ al'.inbox.length < al.inbox.length
  rrT    : rr = true → al'.pend = false ∧ al'.fc = false
  nil    : al.inbox = [] → al'.pend = false ∧ al'.fc = false ∧ rr = false

theorem gRxLoop_ok (hK : R ≤ P.kCf) : ∀ (items : List Fr) (al : AL), al.inbox = items → PInv P R y (tl al t) →
    al.pend = false → al.fc = false →
    ∃ al' rr, absRxLoop P R al items = some (al', rr) ∧ GRxLoopPost P R y t al al' rr := by
  intro items
  induction items with
  | nil =>
    intro al hib h hp hf
    unfold absRxLoop
    rw [if_pos (cfOk_of_le hK _)]
    have e : ({ al with inbox := [] } : AL) = al := by cases al; simp_all
    rw [e]
    exact ⟨al, false, rfl, ⟨h, by simp [hp], rfl, rfl, rfl, Nat.le_refl _, Nat.le_refl _,
      fun hne => absurd hib hne, (fun hh => by cases hh), fun _ => ⟨hp, hf, rfl⟩⟩⟩
  | cons it rest ih =>
    intro al hib h hp hf
    obtain ⟨al1, imm, e1, h1, i1, o1, t1, d1, himm, hfl, hmu⟩ := gRx_ok h hib hp hf hK
    unfold absRxLoop
    rw [e1]
    simp only []
    have hlen : al1.inbox.length < al.inbox.length := by rw [i1, hib]; simp
    by_cases hi : imm = true
    · rw [if_pos hi]
      exact ⟨al1, false, rfl, ⟨h1, hfl, o1, t1, d1, Nat.le_of_lt hmu, Nat.le_of_lt hlen, fun _ => ⟨hmu, hlen⟩,
        (fun hh => by cases hh), (fun hn => by rw [hib] at hn; cases hn)⟩⟩
    · rw [if_neg hi]
      have hi' : imm = false := by simpa using hi
      have hpf : al1.pend = false ∧ al1.fc = false := by
        rw [hi'] at himm
        have := himm.symm
        simpa [Bool.or_eq_false_iff] using this
      by_cases htd : timeDriven al1.tx = true
      · rw [if_pos htd]
        exact ⟨al1, true, rfl, ⟨h1, hfl, o1, t1, d1, Nat.le_of_lt hmu, Nat.le_of_lt hlen, fun _ => ⟨hmu, hlen⟩,
          fun _ => hpf, fun hn => by rw [hib] at hn; cases hn⟩⟩
      · rw [if_neg htd]
        obtain ⟨al2, rr, e2, p2⟩ := ih al1 i1 h1 hpf.1 hpf.2
        refine ⟨al2, rr, e2, ⟨p2.inv, p2.flags, p2.out.trans o1, p2.tx.trans t1, p2.done.trans d1,
          Nat.le_trans p2.mule (Nat.le_of_lt hmu), Nat.le_trans p2.len (Nat.le_of_lt hlen),
          fun _ => ⟨Nat.lt_of_le_of_lt p2.mule hmu, Nat.lt_of_le_of_lt p2.len hlen⟩, p2.rrT,
          fun hn => by rw [hib] at hn; cases hn⟩⟩

/-- what the outer loop (hence a whole `process()` call, full or transmit-only) guarantees -/
structure GPassPost (P : Par) (R : Nat) (y : AL) (t : List Fr) (al al' : AL) : Prop where
  inv    : PInv P R y (tl al' t)
  pend   : al'.pend = false
  fc     : al'.fc = false
  mule   : mu P al' ≤ mu P al
  doneD  : al'.tx = .D → al.tx = .D ∨ al'.done = true
  doneM  : al.done = true → al'.done = true

/-- **the outer loop of a full `process()` call** with `t` still on the link -/
theorem gProcLoop_ok (hKc : R ≤ P.kCf) (hKf : R ≤ P.kFc) : ∀ (f : Nat) (al : AL), psi al < f →
    PInv P R y (tl al t) → al.pend = false → al.fc = false →
    ∃ al', absProcLoop P R f al = some al' ∧ GPassPost P R y t al al' := by
  intro f
  induction f with
  | zero => intro al hf; omega
  | succ f ih =>
    intro al hpsi h hp hf
    unfold absProcLoop
    simp only []
    cases hsw : (decide (al.tx = .I) && rxIdle al.rx) with
    | true =>
      simp only [Bool.not_true, Bool.false_eq_true, if_false, Bool.true_or, if_true]
      have htx : al.tx = .I := by
        have := hsw; simp only [Bool.and_eq_true, decide_eq_true_eq] at this; exact this.1
      obtain ⟨al2, run, e2, p2, i2⟩ := gTxLoop_ok (al := al) (t := t) hKf (txNeed P al.tx) (need_le_txNeed P (tl al t) h) h (by simp [hp])
      rw [e2]
      simp only []
      have hnT : timeDriven al2.tx = false := by
        cases ht : timeDriven al2.tx with
        | false => rfl
        | true =>
          rcases p2.keepT hp ht with r | r
          · have r' : timeDriven al.tx = true := r
            rw [htx] at r'; cases r'
          · have r' : al.fc = true := r
            rw [hf] at r'; cases r'
      have hnI : al2.tx ≠ .I := p2.notI hp
      have hpsi2 : psi al2 < f := by
        unfold psi at *
        rw [i2, hnT, if_neg hnI]
        rw [htx] at hpsi
        simp only [if_true, timeDriven] at hpsi
        simp only [Bool.false_eq_true, if_false]
        omega
      obtain ⟨al3, e3, p3⟩ := ih al2 hpsi2 p2.inv p2.pend p2.fc
      refine ⟨al3, e3, ⟨p3.inv, p3.pend, p3.fc, Nat.le_trans p3.mule p2.mule, ?_, ?_⟩⟩
      · intro hd
        rcases p3.doneD hd with r | r
        · rcases p2.doneD r with r' | r'
          · exact Or.inl r'
          · exact Or.inr (p3.doneM r')
        · exact Or.inr r
      · intro hd; exact p3.doneM (p2.doneM hd)
    | false =>
      simp only [Bool.not_false, if_true, Bool.false_or]
      obtain ⟨al1, rxRun, e1, p1⟩ := gRxLoop_ok (t := t) hKc al.inbox al rfl h hp hf
      rw [e1]
      simp only []
      obtain ⟨al2, run, e2, p2, i2⟩ := gTxLoop_ok (al := al1) (t := t) hKf (txNeed P al1.tx) (need_le_txNeed P (tl al1 t) p1.inv) p1.inv p1.flags
      rw [e2]
      simp only []
      have hmu2 : mu P al2 ≤ mu P al := Nat.le_trans p2.mule p1.mule
      have hdoneD : al2.tx = .D → al.tx = .D ∨ al2.done = true := by
        intro hd
        rcases p2.doneD hd with r | r
        · have r' : al1.tx = .D := r
          rw [p1.tx] at r'; exact Or.inl r'
        · exact Or.inr r
      have hdoneM : al.done = true → al2.done = true := by
        intro hd; exact p2.doneM (by show al1.done = true; rw [p1.done]; exact hd)
      by_cases hgo : (rxRun || run) = true
      · rw [if_pos hgo]
        have hI : al2.tx = .I → al.tx = .I := by
          intro h2
          cases hp1 : al1.pend with
          | false => exact absurd h2 (p2.notI hp1)
          | true =>
            have := (p2.pcase hp1).1
            have this' : al2.tx = al1.tx := this
            rw [← p1.tx, ← this']; exact h2
        have hpsi2 : psi al2 < f := by
          have hti := psi_tI_le hI
          unfold psi at *
          rw [i2]
          by_cases hne : al.inbox = []
          · obtain ⟨q1, q2, q3⟩ := p1.nil hne
            subst q3
            have hrun : run = true := by simpa using hgo
            obtain ⟨r1, r2⟩ := p2.runT q1 hrun
            have r1' : timeDriven al2.tx = false := r1
            have hT : timeDriven al.tx = true := by
              rcases r2 with r2 | r2
              · have r2' : timeDriven al1.tx = true := r2
                rw [p1.tx] at r2'; exact r2'
              · have r2' : al1.fc = true := r2
                rw [q2] at r2'; cases r2'
            have hl := p1.len
            rw [r1']
            rw [hT] at hpsi
            simp only [Bool.false_eq_true, if_false, if_true] at *
            omega
          · have hl := (p1.strict hne).2
            have : (if timeDriven al2.tx = true then 1 else 0) ≤ 1 := by split <;> omega
            omega
        obtain ⟨al3, e3, p3⟩ := ih al2 hpsi2 p2.inv p2.pend p2.fc
        refine ⟨al3, e3, ⟨p3.inv, p3.pend, p3.fc, Nat.le_trans p3.mule hmu2, ?_, ?_⟩⟩
        · intro hd
          rcases p3.doneD hd with r | r
          · rcases hdoneD r with r' | r'
            · exact Or.inl r'
            · exact Or.inr (p3.doneM r')
          · exact Or.inr r
        · intro hd; exact p3.doneM (hdoneM hd)
      · rw [if_neg hgo]
        exact ⟨al2, rfl, ⟨p2.inv, p2.pend, p2.fc, hmu2, hdoneD, hdoneM⟩⟩

/-- **a full `process()` call** with `t` still on the link succeeds, keeps the invariant and does not increase the
    potential -/
theorem gPass_ok (hKc : R ≤ P.kCf) (hKf : R ≤ P.kFc) (h : PInv P R y (tl { al with out := [], done := false } t))
    (hp : al.pend = false) (hf : al.fc = false) :
    ∃ al', absPass P R al = some al' ∧ GPassPost P R y t { al with out := [], done := false } al' := by
  unfold absPass
  refine gProcLoop_ok hKc hKf _ _ ?_ h hp hf
  unfold psi absFuel
  simp only []
  have : (if timeDriven al.tx = true then 1 else 0) ≤ 1 := by split <;> omega
  split <;> omega

end steps


/-! ## the transmit-only pass `process(do_rx=False)` -/

/-- the outer loop of `process(do_rx=False)`: no receive loop; the transmit loop runs again after the first message of
    an idle layer and whenever it asked for an immediate receive pass -/
def absProcLoopTx (P : Par) (R : Nat) : Nat → AL → Option AL
  | 0, _ => none
  | f + 1, al =>
    let sw := decide (al.tx = .I) && rxIdle al.rx
    match absTxLoop P R (txNeed P al.tx) al with
    | none => none
    | some (al2, run) => if sw || run then absProcLoopTx P R f al2 else some al2

/-- one `process(do_rx=False)` call in round `R` -/
def absPassTx (P : Par) (R : Nat) (al : AL) : Option AL :=
  absProcLoopTx P R (absFuel al) { al with out := [], done := false }

/-- bounds the iterations of the outer loop of a transmit-only pass -/
def psiTx (al : AL) : Nat := (if al.tx = .I then 2 else 0) + (if timeDriven al.tx = true then 1 else 0)

section txonly
variable {P : Par} {R : Nat} {y : AL} {t : List Fr}

theorem gProcLoopTx_ok (hKf : R ≤ P.kFc) : ∀ (f : Nat) (al : AL), psiTx al < f →
    PInv P R y (tl al t) → al.pend = false → al.fc = false →
    ∃ al', absProcLoopTx P R f al = some al' ∧ GPassPost P R y t al al' ∧ al'.inbox = al.inbox := by
  intro f
  induction f with
  | zero => intro al hf; omega
  | succ f ih =>
    intro al hpsi h hp hf
    unfold absProcLoopTx
    simp only []
    obtain ⟨al2, run, e2, p2, i2⟩ := gTxLoop_ok (al := al) (t := t) hKf (txNeed P al.tx) (need_le_txNeed P (tl al t) h) h
      (by simp [hp])
    rw [e2]
    simp only []
    have hnI : al2.tx ≠ .I := p2.notI hp
    by_cases hgo : ((decide (al.tx = .I) && rxIdle al.rx) || run) = true
    · rw [if_pos hgo]
      have hpsi2 : psiTx al2 < f := by
        have hT2 : timeDriven al2.tx = false ∧ 1 ≤ psiTx al := by
          by_cases htx : al.tx = .I
          · refine ⟨?_, by unfold psiTx; rw [if_pos htx]; omega⟩
            cases ht : timeDriven al2.tx with
            | false => rfl
            | true =>
              rcases p2.keepT hp ht with r | r
              · have r' : timeDriven al.tx = true := r
                rw [htx] at r'; cases r'
              · have r' : al.fc = true := r
                rw [hf] at r'; cases r'
          · have hrun : run = true := by simpa [htx] using hgo
            obtain ⟨r1, r2⟩ := p2.runT hp hrun
            refine ⟨r1, ?_⟩
            rcases r2 with r2 | r2
            · have r2' : timeDriven al.tx = true := r2
              unfold psiTx; rw [r2']; simp
            · have r2' : al.fc = true := r2
              rw [hf] at r2'; cases r2'
        have : psiTx al2 = 0 := by unfold psiTx; rw [if_neg hnI, hT2.1]; rfl
        omega
      obtain ⟨al3, e3, p3, i3⟩ := ih al2 hpsi2 p2.inv p2.pend p2.fc
      refine ⟨al3, e3, ⟨p3.inv, p3.pend, p3.fc, Nat.le_trans p3.mule p2.mule, ?_, ?_⟩, i3.trans i2⟩
      · intro hd
        rcases p3.doneD hd with r | r
        · rcases p2.doneD r with r' | r'
          · exact Or.inl r'
          · exact Or.inr (p3.doneM r')
        · exact Or.inr r
      · intro hd; exact p3.doneM (p2.doneM hd)
    · rw [if_neg hgo]
      exact ⟨al2, rfl, ⟨p2.inv, p2.pend, p2.fc, p2.mule, p2.doneD, p2.doneM⟩, i2⟩

/-- **a transmit-only `process(do_rx=False)` call** with `t` still on the link succeeds, keeps the invariant, does not
    increase the potential, and leaves the inbox alone -/
theorem gPassTx_ok {al : AL} (hKf : R ≤ P.kFc) (h : PInv P R y (tl { al with out := [], done := false } t))
    (hp : al.pend = false) (hf : al.fc = false) :
    ∃ al', absPassTx P R al = some al' ∧ GPassPost P R y t { al with out := [], done := false } al' ∧
      al'.inbox = al.inbox := by
  unfold absPassTx
  refine gProcLoopTx_ok hKf _ _ ?_ h hp hf
  unfold psiTx absFuel
  simp only []
  have : (if timeDriven al.tx = true then 1 else 0) ≤ 1 := by split <;> omega
  split <;> omega

end txonly

/-! ## the abstract network with links, and the operations of an arbitrary schedule -/

/-- the abstract two-layer network at an arbitrary point of an arbitrary schedule -/
structure GN where
  a     : AL := {}
  b     : AL := {}
  lab   : List Fr := []       -- frames A has emitted that are still on the link A → B
  lba   : List Fr := []       -- … on the link B → A
  R     : Nat := 0            -- ticks elapsed
  doneA : Bool := false       -- `complete(True)` reported to A's / B's request so far
  doneB : Bool := false
  deriving DecidableEq, Repr

/-- the operations of the schedule space of C10 -/
inductive GOp where
  | passA | passB             -- `process()` of A / of B
  | txA | txB                 -- `process(do_rx=False)` of A / of B
  | delAB (k : Nat)           -- the first `k` frames on the link A → B reach B's inbox
  | delBA (k : Nat)
  | tick (k : Nat)            -- `k` ticks
  deriving DecidableEq, Repr

/-- a layer between two passes: the frames it emitted have been moved to the link, the events collected -/
def clr (al : AL) : AL := { al with out := [], done := false }

def gstep (PA PB : Par) (n : GN) : GOp → Option GN
  | .passA => (absPass PA n.R n.a).map fun a1 =>
      { n with a := clr a1, lab := n.lab ++ a1.out, doneA := n.doneA || a1.done }
  | .txA => (absPassTx PA n.R n.a).map fun a1 =>
      { n with a := clr a1, lab := n.lab ++ a1.out, doneA := n.doneA || a1.done }
  | .passB => (absPass PB n.R n.b).map fun b1 =>
      { n with b := clr b1, lba := n.lba ++ b1.out, doneB := n.doneB || b1.done }
  | .txB => (absPassTx PB n.R n.b).map fun b1 =>
      { n with b := clr b1, lba := n.lba ++ b1.out, doneB := n.doneB || b1.done }
  | .delAB k => some { n with b := { n.b with inbox := n.b.inbox ++ n.lab.take k }, lab := n.lab.drop k }
  | .delBA k => some { n with a := { n.a with inbox := n.a.inbox ++ n.lba.take k }, lba := n.lba.drop k }
  | .tick k => some { n with R := n.R + k }

def gticks : GOp → Nat
  | .tick k => k
  | _ => 0

def grun (PA PB : Par) : List GOp → GN → Option GN
  | [], n => some n
  | op :: ops, n => (gstep PA PB n op).bind (grun PA PB ops)

def gticksAll (ops : List GOp) : Nat := (ops.map gticks).sum

/-- the potential of the abstract network (the links do not count) -/
def gM (PA PB : Par) (n : GN) : Nat := mu PA n.a + mu PB n.b

/-- **The invariant of the abstract network with links**: the direction invariants `DirInv` of both directions, with
    "in transit" = inbox ++ link; between two operations no layer has a Flow Control pending or in its mailbox. -/
structure GInv (PA PB : Par) (n : GN) : Prop where
  inv  : PInv PA n.R (tl n.b n.lab) (tl n.a n.lba)
  ap   : n.a.pend = false
  af   : n.a.fc = false
  aout : n.a.out = []
  bout : n.b.out = []
  dA   : n.a.tx = .D → n.doneA = true
  dB   : n.b.tx = .D → n.doneB = true

theorem parOk_symm {PA PB : Par} (h : ParOk PA PB) : ParOk PB PA :=
  ⟨h.n'.symm, h.n.symm, h.bs'.symm, h.bs.symm, h.nB, h.nA⟩

section inv
variable {P : Par} {R : Nat}

/-- the invariant of a pass only looks at these fields of the running layer … -/
theorem pinv_congr_x {y x x' : AL} (h : PInv P R y x) (e1 : x'.tx = x.tx) (e2 : x'.fc = x.fc) (e3 : x'.inbox = x.inbox)
    (e4 : x'.out = x.out) (e5 : x'.rx = x.rx) (e6 : x'.pend = x.pend) : PInv P R y x' := by
  obtain ⟨ho, hi, yp, yf⟩ := h
  exact ⟨by rw [e1, e2, e3, e4]; exact ho, by rw [e3, e4, e5, e6]; exact hi, yp, yf⟩

/-- … and of the other one -/
theorem pinv_congr_y {y y' x : AL} (h : PInv P R y x) (e1 : y'.tx = y.tx) (e2 : y'.fc = y.fc) (e3 : y'.inbox = y.inbox)
    (e5 : y'.rx = y.rx) (e6 : y'.pend = y.pend) : PInv P R y' x := by
  obtain ⟨ho, hi, yp, yf⟩ := h
  exact ⟨by rw [e3, e5, e6]; exact ho, by rw [e1, e2, e3]; exact hi, by rw [e6]; exact yp, by rw [e2]; exact yf⟩

/-- the frames emitted in the pass are moved to the link -/
theorem pinv_flush {y x : AL} (h : PInv P R y x) : PInv P R (tl y x.out) (clr x) := by
  obtain ⟨ho, hi, yp, yf⟩ := h
  refine ⟨?_, ?_, yp, yf⟩
  · show DirInv _ _ _ x.tx x.fc (fcsOf x.inbox) (dataOf (y.inbox ++ x.out) ++ dataOf []) y.rx y.pend
    rw [dataOf_append]
    simpa [dataOf] using ho
  · show DirInv _ _ _ y.tx y.fc (fcsOf (y.inbox ++ x.out) + fcsOf []) (dataOf x.inbox) x.rx x.pend
    rw [fcsOf_append]
    simpa [fcsOf] using hi

/-- the same invariant seen from the other layer (between two passes) -/
theorem pinv_swap {PA PB : Par} (hP : ParOk PA PB) {y x : AL} (h : PInv PA R y x) (hxo : x.out = []) (hyo : y.out = [])
    (hxp : x.pend = false) (hxf : x.fc = false) : PInv PB R x y := by
  obtain ⟨ho, hi, yp, yf⟩ := h
  refine ⟨?_, ?_, hxp, hxf⟩
  · rw [hP.n, hP.bs', hyo]
    rw [hxo] at hi
    simpa [fcsOf, dataOf] using hi
  · rw [hP.n', hP.bs, hyo]
    rw [hxo] at ho
    simpa [fcsOf, dataOf] using ho

theorem pinv_mono {y x : AL} (h : PInv P R y x) : PInv P (R + 1) y x :=
  ⟨h.out.mono, h.inn.mono, h.yp, h.yf⟩

theorem pinv_mono_k {y x : AL} (h : PInv P R y x) : ∀ k, PInv P (R + k) y x
  | 0 => h
  | k + 1 => pinv_mono (pinv_mono_k h k)

end inv


/-! ## every operation keeps the invariant and does not increase the potential -/

/-- the network seen from B -/
def GN.swap (n : GN) : GN :=
  { a := n.b, b := n.a, lab := n.lba, lba := n.lab, R := n.R, doneA := n.doneB, doneB := n.doneA }

def GOp.swap : GOp → GOp
  | .passA => .passB
  | .passB => .passA
  | .txA => .txB
  | .txB => .txA
  | .delAB k => .delBA k
  | .delBA k => .delAB k
  | .tick k => .tick k

theorem GN.swap_swap (n : GN) : n.swap.swap = n := rfl

theorem GOp.swap_swap (op : GOp) : op.swap.swap = op := by cases op <;> rfl

theorem gticks_swap (op : GOp) : gticks op.swap = gticks op := by cases op <;> rfl

theorem gstep_swap (PA PB : Par) (n : GN) (op : GOp) :
    gstep PB PA n.swap op.swap = (gstep PA PB n op).map GN.swap := by
  cases op with
  | passA => show (absPass PA n.R n.a).map _ = ((absPass PA n.R n.a).map _).map _; cases absPass PA n.R n.a <;> rfl
  | passB => show (absPass PB n.R n.b).map _ = ((absPass PB n.R n.b).map _).map _; cases absPass PB n.R n.b <;> rfl
  | txA => show (absPassTx PA n.R n.a).map _ = ((absPassTx PA n.R n.a).map _).map _; cases absPassTx PA n.R n.a <;> rfl
  | txB => show (absPassTx PB n.R n.b).map _ = ((absPassTx PB n.R n.b).map _).map _; cases absPassTx PB n.R n.b <;> rfl
  | delAB k => rfl
  | delBA k => rfl
  | tick k => rfl

theorem gM_swap (PA PB : Par) (n : GN) : gM PB PA n.swap = gM PA PB n := Nat.add_comm _ _

theorem ginv_swap {PA PB : Par} (hP : ParOk PA PB) {n : GN} (h : GInv PA PB n) : GInv PB PA n.swap :=
  ⟨pinv_swap hP h.inv h.aout h.bout h.ap h.af, h.inv.yp, h.inv.yf, h.bout, h.aout, h.dB, h.dA⟩

/-- after a pass (full or transmit-only) of A -/
theorem ginv_afterA {PA PB : Par} {n : GN} (h : GInv PA PB n) {a1 : AL}
    (post : GPassPost PA n.R (tl n.b n.lab) n.lba { n.a with out := [], done := false } a1) :
    GInv PA PB { n with a := clr a1, lab := n.lab ++ a1.out, doneA := n.doneA || a1.done } ∧
      gM PA PB { n with a := clr a1, lab := n.lab ++ a1.out, doneA := n.doneA || a1.done } ≤ gM PA PB n := by
  refine ⟨⟨?_, post.pend, post.fc, rfl, h.bout, ?_, h.dB⟩, ?_⟩
  · have := pinv_flush post.inv
    rw [show tl (tl n.b n.lab) (tl a1 n.lba).out = tl n.b (n.lab ++ a1.out) from tl_tl _ _ _] at this
    exact this
  · intro hd
    show (n.doneA || a1.done) = true
    rcases post.doneD hd with r | r
    · have r' : n.a.tx = .D := r
      rw [h.dA r']; rfl
    · rw [r]; simp
  · have := post.mule
    show mu PA a1 + mu PB n.b ≤ mu PA n.a + mu PB n.b
    have e : mu PA { n.a with out := [], done := false } = mu PA n.a := rfl
    omega

/-- the operations of A, the deliveries towards B, and ticks -/
theorem gstep_okA {PA PB : Par} {n : GN} (h : GInv PA PB n)
    (hK : n.R ≤ PA.kCf ∧ n.R ≤ PA.kFc) (op : GOp)
    (hop : op = .passA ∨ op = .txA ∨ (∃ k, op = .delAB k) ∨ ∃ k, op = .tick k) :
    ∃ n', gstep PA PB n op = some n' ∧ GInv PA PB n' ∧ gM PA PB n' ≤ gM PA PB n ∧ n'.R = n.R + gticks op := by
  have h0 : PInv PA n.R (tl n.b n.lab) (tl { n.a with out := [], done := false } n.lba) :=
    pinv_congr_x h.inv rfl rfl rfl h.aout.symm rfl rfl
  rcases hop with rfl | rfl | ⟨k, rfl⟩ | ⟨k, rfl⟩
  · obtain ⟨a1, e, post⟩ := gPass_ok hK.1 hK.2 h0 h.ap h.af
    obtain ⟨g1, g2⟩ := ginv_afterA h post
    exact ⟨_, by simp only [gstep, e, Option.map_some], g1, g2, rfl⟩
  · obtain ⟨a1, e, post, -⟩ := gPassTx_ok hK.2 h0 h.ap h.af
    obtain ⟨g1, g2⟩ := ginv_afterA h post
    exact ⟨_, by simp only [gstep, e, Option.map_some], g1, g2, rfl⟩
  · refine ⟨_, rfl, ⟨?_, h.ap, h.af, h.aout, h.bout, h.dA, h.dB⟩, Nat.le_refl _, rfl⟩
    refine pinv_congr_y h.inv rfl rfl ?_ rfl rfl
    show (n.b.inbox ++ n.lab.take k) ++ n.lab.drop k = n.b.inbox ++ n.lab
    rw [List.append_assoc, List.take_append_drop]
  · exact ⟨_, rfl, ⟨pinv_mono_k h.inv k, h.ap, h.af, h.aout, h.bout, h.dA, h.dB⟩, Nat.le_refl _, rfl⟩

/-- **Every operation of the schedule space** succeeds on a state satisfying the invariant (as long as the number of
    ticks elapsed is within the timeouts), keeps the invariant, and does not increase the potential. -/
theorem gstep_ok {PA PB : Par} (hP : ParOk PA PB) {n : GN} (h : GInv PA PB n)
    (hK : n.R ≤ PA.kCf ∧ n.R ≤ PA.kFc ∧ n.R ≤ PB.kCf ∧ n.R ≤ PB.kFc) (op : GOp) :
    ∃ n', gstep PA PB n op = some n' ∧ GInv PA PB n' ∧ gM PA PB n' ≤ gM PA PB n ∧ n'.R = n.R + gticks op := by
  have hB : ∀ op' : GOp, (op' = .passA ∨ op' = .txA ∨ (∃ k, op' = .delAB k) ∨ ∃ k, op' = .tick k) → op = op'.swap →
      ∃ n', gstep PA PB n op = some n' ∧ GInv PA PB n' ∧ gM PA PB n' ≤ gM PA PB n ∧ n'.R = n.R + gticks op := by
    intro op' hop' e
    subst e
    obtain ⟨m, e1, g1, g2, g3⟩ := gstep_okA (ginv_swap hP h) ⟨hK.2.2.1, hK.2.2.2⟩ op' hop'
    have e2 := gstep_swap PA PB n op'.swap
    rw [GOp.swap_swap, e1] at e2
    cases hr : gstep PA PB n op'.swap with
    | none => rw [hr] at e2; cases e2
    | some n' =>
      rw [hr] at e2
      simp only [Option.map_some, Option.some.injEq] at e2
      subst e2
      refine ⟨n', rfl, ?_, ?_, ?_⟩
      · have := ginv_swap (parOk_symm hP) g1
        rw [GN.swap_swap] at this
        exact this
      · rw [gM_swap, gM_swap] at g2; exact g2
      · rw [gticks_swap]; exact g3
  cases op with
  | passA => exact gstep_okA h ⟨hK.1, hK.2.1⟩ _ (Or.inl rfl)
  | txA => exact gstep_okA h ⟨hK.1, hK.2.1⟩ _ (Or.inr (Or.inl rfl))
  | delAB k => exact gstep_okA h ⟨hK.1, hK.2.1⟩ _ (Or.inr (Or.inr (Or.inl ⟨k, rfl⟩)))
  | tick k => exact gstep_okA h ⟨hK.1, hK.2.1⟩ _ (Or.inr (Or.inr (Or.inr ⟨k, rfl⟩)))
  | passB => exact hB .passA (Or.inl rfl) rfl
  | txB => exact hB .txA (Or.inr (Or.inl rfl)) rfl
  | delBA k => exact hB (.delAB k) (Or.inr (Or.inr (Or.inl ⟨k, rfl⟩))) rfl

/-- **Every schedule** succeeds on the abstract network, keeps the invariant, never increases the potential. -/
theorem grun_ok {PA PB : Par} (hP : ParOk PA PB) : ∀ (ops : List GOp) (n : GN), GInv PA PB n →
    n.R + gticksAll ops ≤ PA.kCf → n.R + gticksAll ops ≤ PA.kFc → n.R + gticksAll ops ≤ PB.kCf →
    n.R + gticksAll ops ≤ PB.kFc →
    ∃ n', grun PA PB ops n = some n' ∧ GInv PA PB n' ∧ gM PA PB n' ≤ gM PA PB n ∧ n'.R = n.R + gticksAll ops := by
  intro ops
  induction ops with
  | nil => intro n h _ _ _ _; exact ⟨n, rfl, h, Nat.le_refl _, rfl⟩
  | cons op ops ih =>
    intro n h k1 k2 k3 k4
    have e : gticksAll (op :: ops) = gticks op + gticksAll ops := by simp [gticksAll]
    rw [e] at k1 k2 k3 k4 ⊢
    obtain ⟨n1, e1, h1, m1, r1⟩ := gstep_ok hP h ⟨by omega, by omega, by omega, by omega⟩ op
    obtain ⟨n2, e2, h2, m2, r2⟩ := ih n1 h1 (by omega) (by omega) (by omega) (by omega)
    exact ⟨n2, by simp only [grun, e1, Option.bind_some]; exact e2, h2, Nat.le_trans m2 m1, by omega⟩


/-! ## the start state, and the canonical round from an arbitrary state -/

theorem ginv_init {PA PB : Par} (hP : ParOk PA PB) : GInv PA PB {} :=
  ⟨(ninv_init hP).inv, rfl, rfl, rfl, rfl, (by intro hh; cases hh), (by intro hh; cases hh)⟩

theorem gM_init (PA PB : Par) (hP : ParOk PA PB) : gM PA PB {} = 4 * (PA.n + PB.n) + 2 := netM_init PA PB hP

/-- A.process(); deliver all A → B; B.process(); deliver all B → A; one tick -/
def gcanon (PA PB : Par) (n : GN) : Option GN :=
  (gstep PA PB n .passA).bind fun n1 =>
  (gstep PA PB n1 (.delAB n1.lab.length)).bind fun n2 =>
  (gstep PA PB n2 .passB).bind fun n3 =>
  (gstep PA PB n3 (.delBA n3.lba.length)).bind fun n4 =>
  gstep PA PB n4 (.tick 1)

/-- the round-synchronous abstract network of DuplexLive2 that a state with empty links is -/
def GN.toAN (n : GN) : AN := { a := n.a, b := n.b, R := n.R, doneA := n.doneA, doneB := n.doneB }

theorem gstep_passB_lab {PA PB : Par} {n n' : GN} (h : gstep PA PB n .passB = some n') : n'.lab = n.lab := by
  simp only [gstep] at h
  cases hb : absPass PB n.R n.b with
  | none => rw [hb] at h; cases h
  | some b1 => rw [hb] at h; simp only [Option.map_some, Option.some.injEq] at h; subst h; rfl

/-- what a state with empty links that satisfies `GInv` says in the vocabulary of DuplexLive5 -/
theorem ninv_of_ginv {PA PB : Par} {n : GN} (h : GInv PA PB n) (hab : n.lab = []) (hba : n.lba = [])
    (fA : ∀ k j r, n.a.tx = .T k j r → r < n.R) (fB : ∀ k j r, n.b.tx = .T k j r → r < n.R) :
    NInv PA PB n.toAN := by
  refine ⟨?_, h.ap, h.af, fA, fB, h.dA, h.dB⟩
  have := h.inv
  rw [hab, hba, tl_nil, tl_nil] at this
  exact pinv_congr_x this rfl rfl rfl h.aout.symm rfl rfl

/-- **The canonical round from ANY state satisfying the invariant** succeeds, does not increase the potential, and
    ends with empty links in a state satisfying the round-synchronous invariant `NInv` of DuplexLive5. -/
theorem gcanon_ok {PA PB : Par} (hP : ParOk PA PB) {n : GN} (h : GInv PA PB n)
    (hK : n.R ≤ PA.kCf ∧ n.R ≤ PA.kFc ∧ n.R ≤ PB.kCf ∧ n.R ≤ PB.kFc) :
    ∃ n', gcanon PA PB n = some n' ∧ GInv PA PB n' ∧ n'.lab = [] ∧ n'.lba = [] ∧ NInv PA PB n'.toAN ∧
      gM PA PB n' ≤ gM PA PB n ∧ n'.R = n.R + 1 := by
  obtain ⟨n1, e1, h1, m1, r1⟩ := gstep_ok hP h hK .passA
  have r1' : n1.R = n.R := r1
  obtain ⟨n2, e2, h2, m2, r2⟩ := gstep_ok hP h1 (by rw [r1']; exact hK) (.delAB n1.lab.length)
  have e2' : n2 = { n1 with b := { n1.b with inbox := n1.b.inbox ++ n1.lab.take n1.lab.length },
                            lab := n1.lab.drop n1.lab.length } := by
    have : gstep PA PB n1 (.delAB n1.lab.length) = some _ := rfl
    rw [this] at e2; exact (Option.some.inj e2).symm
  have l2 : n2.lab = [] := by rw [e2']; simp
  have r2' : n2.R = n.R := by rw [r2, r1']; rfl
  obtain ⟨n3, e3, h3, m3, r3⟩ := gstep_ok hP h2 (by rw [r2']; exact hK) .passB
  have l3 : n3.lab = [] := (gstep_passB_lab e3).trans l2
  have r3' : n3.R = n.R := by rw [r3, r2']; rfl
  obtain ⟨n4, e4, h4, m4, r4⟩ := gstep_ok hP h3 (by rw [r3']; exact hK) (.delBA n3.lba.length)
  have e4' : n4 = { n3 with a := { n3.a with inbox := n3.a.inbox ++ n3.lba.take n3.lba.length },
                            lba := n3.lba.drop n3.lba.length } := by
    have : gstep PA PB n3 (.delBA n3.lba.length) = some _ := rfl
    rw [this] at e4; exact (Option.some.inj e4).symm
  have l4 : n4.lab = [] := by rw [e4']; exact l3
  have l4' : n4.lba = [] := by rw [e4']; simp
  have r4' : n4.R = n.R := by rw [r4, r3']; rfl
  obtain ⟨n5, e5, h5, m5, r5⟩ := gstep_ok hP h4 (by rw [r4']; exact hK) (.tick 1)
  have e5' : n5 = { n4 with R := n4.R + 1 } := by
    have : gstep PA PB n4 (.tick 1) = some _ := rfl
    rw [this] at e5; exact (Option.some.inj e5).symm
  have l5 : n5.lab = [] := by rw [e5']; exact l4
  have l5' : n5.lba = [] := by rw [e5']; exact l4'
  refine ⟨n5, by simp only [gcanon, e1, e2, e3, e4, Option.bind_some]; exact e5, h5, l5, l5', ?_, by omega, ?_⟩
  · refine ninv_of_ginv h5 l5 l5' ?_ ?_
    · intro k j r htx
      have := h4.inv.out.txok
      have htx' : (tl n4.a n4.lba).tx = .T k j r := by rw [e5'] at htx; exact htx
      rw [htx'] at this
      simp only [TxOk] at this
      rw [e5']; show r < n4.R + 1; omega
    · intro k j r htx
      have := h4.inv.inn.txok
      have htx' : (tl n4.b n4.lab).tx = .T k j r := by rw [e5'] at htx; exact htx
      rw [htx'] at this
      simp only [TxOk] at this
      rw [e5']; show r < n4.R + 1; omega
  · rw [r5, r4']; rfl

/-- **No abstract state is stuck**: from any state satisfying the invariant, one canonical round (which flushes the
    links) followed by at most `gM` (the potential: remaining work) canonical rounds of the round-synchronous machine
    reaches the final state — as long as the timeouts cover `R + 1 + gM` ticks. -/
theorem g_terminates {PA PB : Par} (hP : ParOk PA PB) {n : GN} (h : GInv PA PB n) (K : Nat)
    (hK : n.R + 1 + gM PA PB n ≤ K) (k1 : K ≤ PA.kCf) (k2 : K ≤ PA.kFc) (k3 : K ≤ PB.kCf) (k4 : K ≤ PB.kFc) :
    ∃ n1 N n', gcanon PA PB n = some n1 ∧ n1.lab = [] ∧ n1.lba = [] ∧ n1.R = n.R + 1 ∧ GInv PA PB n1 ∧
      N ≤ gM PA PB n ∧ absRounds PA PB N n1.toAN = some n' ∧ n'.final = true := by
  obtain ⟨n1, e1, g1, l1, l1', hN, m1, r1⟩ := gcanon_ok hP h ⟨by omega, by omega, by omega, by omega⟩
  have hm : netM PA PB n1.toAN = gM PA PB n1 := rfl
  have hR : n1.toAN.R = n.R + 1 := r1
  obtain ⟨N, n', hN', e2, hf⟩ := abs_terminates hP _ n1.toAN rfl hN (by rw [hm, hR]; omega) (by rw [hm, hR]; omega)
    (by rw [hm, hR]; omega) (by rw [hm, hR]; omega)
  exact ⟨n1, N, n', e1, l1, l1', r1, g1, by rw [hm] at hN'; omega, e2, hf⟩

end Isotp.NoStuck
