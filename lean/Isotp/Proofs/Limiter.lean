import Isotp.Process
/-
  Helper lemmas for C15 (rate limiter).

  Part A: pure `Limiter` bookkeeping (`expire`, `addToLast`, `update`, `inform`, `reset`).
  Part B: the abstract limiter run (steps `update` / `emit`) and the window bound.
  Part C: the limiter inside `processTx` (`startTx = dispatch ∘ buildTx`, `transmitCf`,
          decomposition `processTx_eq`, one-pass specification `PassSpec`).
  Part D: `rxLoop`, `txLoop`, `processLoop` and whole sessions as limiter runs (`LoopSpec`, `Session`).
  Part E: progress and delay-only lemmas.
-/
namespace Isotp.C15
open Isotp State

/-! ## Part A — limiter bookkeeping -/

/-- sum of the bit counts of a slot list -/
def bitsSum (sl : List (Nat × Nat)) : Nat := (sl.map (·.2)).sum

/-- any two slots (in list order) start more than one accounting slot (5 ms) apart -/
def Gapped (sl : List (Nat × Nat)) : Prop := sl.Pairwise (fun a b => a.1 + slotNs < b.1)

/-- the bookkeeping invariant of the rate limiter -/
structure LimInv (l : Limiter) : Prop where
  total : l.bitTotal = bitsSum l.slots
  gapped : Gapped l.slots

@[simp] theorem bitsSum_nil : bitsSum [] = 0 := rfl
@[simp] theorem bitsSum_cons (e : Nat × Nat) (sl) : bitsSum (e :: sl) = e.2 + bitsSum sl := by
  simp [bitsSum]

/-! ### `expire` -/

theorem expire_suffix (w now : Nat) (sl : List (Nat × Nat)) (bt : Nat) :
    (Limiter.expire w now sl bt).1 <:+ sl := by
  fun_induction Limiter.expire w now sl bt with
  | case1 bt => exact List.suffix_refl _
  | case2 t b rest bt h ih => exact List.IsSuffix.trans ih (List.suffix_cons _ _)
  | case3 t b rest bt h => exact List.suffix_refl _

theorem expire_total (w now : Nat) (sl : List (Nat × Nat)) (bt : Nat) (h : bt = bitsSum sl) :
    (Limiter.expire w now sl bt).2 = bitsSum (Limiter.expire w now sl bt).1 := by
  fun_induction Limiter.expire w now sl bt with
  | case1 bt => exact h
  | case2 t b rest bt hx ih => apply ih; simp at h; omega
  | case3 t b rest bt hx => exact h

theorem expire_le (w now : Nat) (sl : List (Nat × Nat)) (bt : Nat) :
    (Limiter.expire w now sl bt).2 ≤ bt := by
  fun_induction Limiter.expire w now sl bt with
  | case1 bt => exact Nat.le_refl _
  | case2 t b rest bt hx ih => omega
  | case3 t b rest bt hx => exact Nat.le_refl _

/-- everything expired: the slot list is emptied -/
theorem expire_all (w now : Nat) (sl : List (Nat × Nat)) (bt : Nat)
    (h : ∀ e ∈ sl, now - e.1 > w) : (Limiter.expire w now sl bt).1 = [] := by
  fun_induction Limiter.expire w now sl bt with
  | case1 bt => rfl
  | case2 t b rest bt hx ih => exact ih (fun e he => h e (List.mem_cons_of_mem _ he))
  | case3 t b rest bt hx => exact absurd (h (t, b) List.mem_cons_self) hx

/-- the oldest slot is still inside the window: nothing changes -/
theorem expire_head_live (w now : Nat) (e : Nat × Nat) (sl : List (Nat × Nat)) (bt : Nat)
    (h : now - e.1 ≤ w) : Limiter.expire w now (e :: sl) bt = (e :: sl, bt) := by
  obtain ⟨t, b⟩ := e
  simp only [Limiter.expire]
  simp at h
  have : ¬ (now - t > w) := by omega
  simp [this]

/-- what survives `expire` is not expired at its head; what is dropped was expired -/
theorem expire_dropped (w now : Nat) (sl : List (Nat × Nat)) (bt : Nat) :
    ∃ dropped, sl = dropped ++ (Limiter.expire w now sl bt).1 ∧ ∀ e ∈ dropped, now - e.1 > w := by
  fun_induction Limiter.expire w now sl bt with
  | case1 bt => exact ⟨[], rfl, by simp⟩
  | case2 t b rest bt hx ih =>
    obtain ⟨d, hd, hall⟩ := ih
    refine ⟨(t, b) :: d, by simp [← hd], ?_⟩
    intro e he
    rcases List.mem_cons.mp he with rfl | he
    · exact hx
    · exact hall e he
  | case3 t b rest bt hx => exact ⟨[], rfl, by simp⟩

/-! ### `addToLast` -/

theorem bitsSum_addToLast (now bits : Nat) (sl : List (Nat × Nat)) :
    bitsSum (Limiter.addToLast now bits sl) = bitsSum sl + bits := by
  fun_induction Limiter.addToLast now bits sl with
  | case1 => simp
  | case2 t b h => simp
  | case3 t b h => simp
  | case4 x rest h1 ih => simp [ih]; omega

theorem addToLast_ne_nil (now bits : Nat) (sl : List (Nat × Nat)) :
    Limiter.addToLast now bits sl ≠ [] := by
  fun_induction Limiter.addToLast now bits sl <;> simp

/-- a strict lower bound `k` of all slot starts of a non-empty gapped slot list is still a lower
    bound after `addToLast` (a new slot starts later than the last old one) -/
theorem addToLast_starts (now bits : Nat) (sl : List (Nat × Nat)) (k : Nat)
    (hk : ∀ e ∈ sl, k < e.1) (hg : Gapped sl) (hne : sl ≠ []) :
    ∀ e ∈ Limiter.addToLast now bits sl, k < e.1 := by
  fun_induction Limiter.addToLast now bits sl with
  | case1 => exact absurd rfl hne
  | case2 t b h =>
    intro e he
    have := hk (t, b) (by simp)
    simp at he this
    rcases he with rfl | rfl <;> simp <;> omega
  | case3 t b h =>
    intro e he
    have := hk (t, b) (by simp)
    simp at he this
    subst he; simpa using this
  | case4 x rest h1 ih =>
    intro e he
    rcases List.mem_cons.mp he with rfl | he
    · exact hk _ List.mem_cons_self
    · have hrest : rest ≠ [] := by
        intro h; exact h1 x.1 x.2 rfl h
      exact ih (fun e he => hk e (List.mem_cons_of_mem _ he)) (List.Pairwise.of_cons hg) hrest e he

theorem gapped_addToLast (now bits : Nat) (sl : List (Nat × Nat)) (hg : Gapped sl) :
    Gapped (Limiter.addToLast now bits sl) := by
  fun_induction Limiter.addToLast now bits sl with
  | case1 => simp [Gapped]
  | case2 t b h => simp [Gapped]; omega
  | case3 t b h => simp [Gapped]
  | case4 x rest h1 ih =>
    have hrest : rest ≠ [] := by
      intro h; exact h1 x.1 x.2 rfl h
    have hg' : Gapped rest := List.Pairwise.of_cons hg
    refine List.Pairwise.cons ?_ (ih hg')
    exact addToLast_starts now bits rest (x.1 + slotNs)
      (fun e he => List.rel_of_pairwise_cons hg he) hg' hrest

/-! ### `recent`: the bits held in slots that can contain an emission made at time `≥ a` -/

def recent (a : Nat) (sl : List (Nat × Nat)) : Nat :=
  bitsSum (sl.filter (fun e => a ≤ e.1 + slotNs))

@[simp] theorem recent_nil (a : Nat) : recent a [] = 0 := rfl

theorem recent_cons (a : Nat) (e : Nat × Nat) (sl : List (Nat × Nat)) :
    recent a (e :: sl) = (if a ≤ e.1 + slotNs then e.2 else 0) + recent a sl := by
  unfold recent
  by_cases h : a ≤ e.1 + slotNs <;> simp [h]

theorem recent_le (a : Nat) (sl : List (Nat × Nat)) : recent a sl ≤ bitsSum sl := by
  induction sl with
  | nil => simp
  | cons e sl ih => rw [recent_cons, bitsSum_cons]; split <;> omega

theorem recent_addToLast_ge (a now bits : Nat) (sl : List (Nat × Nat)) :
    recent a sl ≤ recent a (Limiter.addToLast now bits sl) := by
  fun_induction Limiter.addToLast now bits sl with
  | case1 => simp
  | case2 t b h => simp only [recent_cons, recent_nil]; omega
  | case3 t b h => simp only [recent_cons, recent_nil]; split <;> omega
  | case4 x rest h1 ih => simp only [recent_cons]; omega

/-- an emission at time `now ≥ a` lands in a slot counted by `recent a` -/
theorem recent_addToLast_eq (a now bits : Nat) (sl : List (Nat × Nat)) (h : a ≤ now) :
    recent a (Limiter.addToLast now bits sl) = recent a sl + bits := by
  fun_induction Limiter.addToLast now bits sl with
  | case1 => simp only [recent_cons, recent_nil]; split <;> omega
  | case2 t b hx =>
    simp only [recent_cons, recent_nil]
    have : a ≤ now + slotNs := by omega
    simp only [this, if_true]; omega
  | case3 t b hx =>
    simp only [recent_cons, recent_nil]
    have : a ≤ t + slotNs := by omega
    simp only [this, if_true]; omega
  | case4 x rest h1 ih => simp only [recent_cons, ih]; omega

/-- an `update` made no later than `a + w - slotNs` drops no slot counted by `recent a` -/
theorem recent_expire (a w now : Nat) (sl : List (Nat × Nat)) (bt : Nat)
    (h : now + slotNs ≤ a + w) : recent a (Limiter.expire w now sl bt).1 = recent a sl := by
  fun_induction Limiter.expire w now sl bt with
  | case1 bt => rfl
  | case2 t b rest bt hx ih =>
    rw [ih, recent_cons]
    have : ¬ (a ≤ t + slotNs) := by simp at hx ⊢; omega
    simp [this]
  | case3 t b rest bt hx => rfl

/-! ### invariant preservation -/

theorem limInv_init (en : Bool) : LimInv { enabled := en } :=
  ⟨rfl, List.Pairwise.nil⟩

theorem limInv_reset (l : Limiter) : LimInv l.reset :=
  ⟨rfl, List.Pairwise.nil⟩

theorem limInv_update (l : Limiter) (w now : Nat) (h : LimInv l) : LimInv (l.update w now) := by
  unfold Limiter.update
  split
  · exact limInv_reset l
  · exact ⟨expire_total w now l.slots l.bitTotal h.total,
      List.Pairwise.sublist (expire_suffix w now l.slots l.bitTotal).sublist h.gapped⟩

theorem limInv_inform (l : Limiter) (now len : Nat) (h : LimInv l) : LimInv (l.inform now len) := by
  unfold Limiter.inform
  split
  · exact ⟨by simp [bitsSum_addToLast, h.total], gapped_addToLast _ _ _ h.gapped⟩
  · exact h

theorem LimInv.sorted {l : Limiter} (h : LimInv l) : l.slots.Pairwise (fun a b => a.1 ≤ b.1) :=
  List.Pairwise.imp (fun hab => by omega) h.gapped

/-- consecutive slot starts differ by more than the 5 ms accounting slot -/
theorem LimInv.consecutive {l : Limiter} (h : LimInv l) (i : Nat) (hi : i + 1 < l.slots.length) :
    l.slots[i].1 + slotNs < l.slots[i + 1].1 :=
  List.pairwise_iff_getElem.mp h.gapped i (i + 1) (by omega) hi (by omega)

/-! ### `update`, `allowedBytes`, `inform` facts -/

@[simp] theorem update_enabled (l : Limiter) (w now : Nat) : (l.update w now).enabled = l.enabled := by
  unfold Limiter.update Limiter.reset; split <;> rfl
@[simp] theorem inform_enabled (l : Limiter) (now n : Nat) : (l.inform now n).enabled = l.enabled := by
  unfold Limiter.inform; split <;> rfl
@[simp] theorem reset_enabled (l : Limiter) : l.reset.enabled = l.enabled := rfl

/-- `update` never increases the accounted total -/
theorem update_bitTotal_le (l : Limiter) (w now : Nat) : (l.update w now).bitTotal ≤ l.bitTotal := by
  unfold Limiter.update Limiter.reset
  split
  · simp
  · exact expire_le w now l.slots l.bitTotal

/-- `update` only removes slots (what remains is a suffix of the old slot list) -/
theorem update_slots_suffix (l : Limiter) (w now : Nat) : (l.update w now).slots <:+ l.slots := by
  unfold Limiter.update Limiter.reset
  split
  · exact List.nil_suffix
  · exact expire_suffix w now l.slots l.bitTotal

theorem update_disabled (l : Limiter) (w now : Nat) (h : l.enabled = false) :
    l.update w now = l.reset := by simp [Limiter.update, h]

theorem inform_disabled (l : Limiter) (now n : Nat) (h : l.enabled = false) :
    l.inform now n = l := by simp [Limiter.inform, h]

theorem allowedBytes_disabled (l : Limiter) (m : Nat) (h : l.enabled = false) :
    l.allowedBytes m = 0xFFFFFFFF := by simp [Limiter.allowedBytes, h, noLimit]

theorem allowedBytes_enabled (l : Limiter) (m : Nat) (h : l.enabled = true) :
    l.allowedBytes m = (m - l.bitTotal) / 8 := by simp [Limiter.allowedBytes, h]

theorem inform_bitTotal (l : Limiter) (now n : Nat) (h : l.enabled = true) :
    (l.inform now n).bitTotal = l.bitTotal + 8 * n := by
  simp [Limiter.inform, h]; omega

/-- the admission test, arithmetically: the unpadded frame still fits under the window maximum -/
theorem admitted_fits (l : Limiter) (m len : Nat) (h : l.enabled = true) (h1 : 1 ≤ len)
    (ha : len ≤ l.allowedBytes m) : l.bitTotal + 8 * len ≤ m := by
  rw [allowedBytes_enabled l m h] at ha; omega

/-- everything is older than the window: `update` empties the limiter -/
theorem update_all_expired (l : Limiter) (w now : Nat) (hen : l.enabled = true) (hinv : LimInv l)
    (h : ∀ e ∈ l.slots, now - e.1 > w) :
    (l.update w now).slots = [] ∧ (l.update w now).bitTotal = 0 := by
  have hs : (l.update w now).slots = [] := by
    simp [Limiter.update, hen, expire_all w now l.slots l.bitTotal h]
  refine ⟨hs, ?_⟩
  have := (limInv_update l w now hinv).total
  rw [this, hs]; rfl

/-! ## Part B — abstract limiter runs and the window bound -/

/-- One use of the limiter by the transport layer.
    * `update now` : `RateLimiter.update()` at time `now` (start of a `process()` tx phase);
    * `emit now len padded` : `_process_tx` hands a data frame to the CAN layer at time `now`:
      the admission test compared `len` with `allowed_bytes()`, and `inform_byte_sent(padded)`
      was called (`padded` = length of the padded CAN payload).
    (`TransportLayerLogic.reset()` empties the limiter: a run starts from the empty limiter and
    extends to the next `reset()`.) -/
inductive Step where
  | update (now : Nat)
  | emit (now len padded : Nat)
  deriving DecidableEq, Repr

def Step.time : Step → Nat
  | .update now => now
  | .emit now _ _ => now

/-- effect of one step on the limiter (window `w`) -/
def Step.exec (w : Nat) (l : Limiter) : Step → Limiter
  | .update now => l.update w now
  | .emit now _ padded => l.inform now padded

/-- the guard under which the real code performs the step (`m` = `window_bit_max`,
    `p` = largest CAN payload): an `emit` passed the admission test of `_process_tx`. -/
def Step.ok (m p : Nat) (l : Limiter) : Step → Prop
  | .update _ => True
  | .emit _ len padded => 1 ≤ len ∧ len ≤ l.allowedBytes m ∧ padded ≤ p

instance (m p : Nat) (l : Limiter) (st : Step) : Decidable (st.ok m p l) := by
  cases st <;> simp only [Step.ok] <;> infer_instance

/-- limiter after a list of steps -/
def execAll (w : Nat) (l : Limiter) : List Step → Limiter
  | [] => l
  | st :: rest => execAll w (st.exec w l) rest

/-- a run: times never go backwards (starting from `t0`) and every step's guard holds in the
    limiter state in which it is taken. No `update` is required between two `emit`s. -/
def Valid (w m p : Nat) (l : Limiter) (t0 : Nat) : List Step → Prop
  | [] => True
  | st :: rest => t0 ≤ st.time ∧ st.ok m p l ∧ Valid w m p (st.exec w l) st.time rest

instance validDec (w m p : Nat) : (l : Limiter) → (t0 : Nat) → (steps : List Step) →
    Decidable (Valid w m p l t0 steps)
  | _, _, [] => isTrue trivial
  | l, t0, st :: rest =>
    have := validDec w m p (st.exec w l) st.time rest
    by unfold Valid; infer_instance

/-- the emission history of a run: (time, bits accounted = 8 × padded length), oldest first -/
def emissions : List Step → List (Nat × Nat)
  | [] => []
  | .emit now _ padded :: rest => (now, 8 * padded) :: emissions rest
  | _ :: rest => emissions rest

/-- data-field bits handed to the CAN layer at times in `[a, b]` -/
def bitsIn (a b : Nat) (es : List (Nat × Nat)) : Nat :=
  bitsSum (es.filter (fun e => a ≤ e.1 ∧ e.1 ≤ b))

theorem bitsIn_cons (a b : Nat) (e : Nat × Nat) (es : List (Nat × Nat)) :
    bitsIn a b (e :: es) = (if a ≤ e.1 ∧ e.1 ≤ b then e.2 else 0) + bitsIn a b es := by
  unfold bitsIn
  by_cases h : a ≤ e.1 ∧ e.1 ≤ b <;> simp [h]

@[simp] theorem bitsIn_nil (a b : Nat) : bitsIn a b [] = 0 := rfl

theorem execAll_append (w : Nat) (l : Limiter) (xs ys : List Step) :
    execAll w l (xs ++ ys) = execAll w (execAll w l xs) ys := by
  induction xs generalizing l with
  | nil => rfl
  | cons x xs ih => exact ih _

theorem emissions_append (xs ys : List Step) : emissions (xs ++ ys) = emissions xs ++ emissions ys := by
  induction xs with
  | nil => rfl
  | cons x xs ih => cases x <;> simp [emissions, ih]

/-- last time of a run -/
def lastTime (t0 : Nat) : List Step → Nat
  | [] => t0
  | st :: rest => lastTime st.time rest

theorem lastTime_append (t0 : Nat) (xs ys : List Step) :
    lastTime t0 (xs ++ ys) = lastTime (lastTime t0 xs) ys := by
  induction xs generalizing t0 with
  | nil => rfl
  | cons x xs ih => exact ih _

theorem valid_append (w m p : Nat) (l : Limiter) (t0 : Nat) (xs ys : List Step) :
    Valid w m p l t0 (xs ++ ys) ↔
      Valid w m p l t0 xs ∧ Valid w m p (execAll w l xs) (lastTime t0 xs) ys := by
  induction xs generalizing l t0 with
  | nil => simp [Valid, execAll, lastTime]
  | cons x xs ih => simp [Valid, execAll, lastTime, ih, and_assoc]

theorem valid_mono_t0 (w m p : Nat) (l : Limiter) (t0 t1 : Nat) (steps : List Step)
    (h : Valid w m p l t0 steps) (ht : t1 ≤ t0) : Valid w m p l t1 steps := by
  cases steps with
  | nil => trivial
  | cons st rest => exact ⟨Nat.le_trans ht h.1, h.2⟩

theorem le_lastTime (w m p : Nat) (l : Limiter) (t0 : Nat) (steps : List Step)
    (h : Valid w m p l t0 steps) : t0 ≤ lastTime t0 steps := by
  induction steps generalizing l t0 with
  | nil => exact Nat.le_refl _
  | cons st rest ih => exact Nat.le_trans h.1 (ih _ _ h.2.2)

theorem execAll_enabled (w : Nat) (l : Limiter) (steps : List Step) :
    (execAll w l steps).enabled = l.enabled := by
  induction steps generalizing l with
  | nil => rfl
  | cons st rest ih => rw [execAll, ih]; cases st <;> simp [Step.exec]

theorem limInv_execAll (w : Nat) (l : Limiter) (steps : List Step) (h : LimInv l) :
    LimInv (execAll w l steps) := by
  induction steps generalizing l with
  | nil => exact h
  | cons st rest ih =>
    apply ih
    cases st
    · exact limInv_update _ _ _ h
    · exact limInv_inform _ _ _ h

/-- after time `b` has passed nothing more is emitted inside `[a, b]` -/
theorem bitsIn_late (w m p a b : Nat) (l : Limiter) (t0 : Nat) (steps : List Step)
    (h : Valid w m p l t0 steps) (ht : b < t0) : bitsIn a b (emissions steps) = 0 := by
  induction steps generalizing l t0 with
  | nil => rfl
  | cons st rest ih =>
    have h1 : t0 ≤ st.time := h.1
    have := ih _ _ h.2.2 (by omega)
    cases st with
    | update now => exact this
    | emit now len padded =>
      simp only [Step.time] at h1
      have hn : ¬ (a ≤ now ∧ now ≤ b) := by omega
      simpa [emissions, bitsIn_cons, hn] using this

/-- The invariant behind the window bound, for a fixed window start `a`: `g` (the bits emitted
    so far at times `≥ a`) are all still accounted, and the total stays below the admission
    ceiling plus one frame. -/
structure WInv (m p a : Nat) (l : Limiter) (g : Nat) : Prop where
  total : l.bitTotal = bitsSum l.slots
  ghost : g ≤ recent a l.slots
  ceil : l.bitTotal ≤ m + 8 * (p - 1)

theorem wInv_le {m p a : Nat} {l : Limiter} {g : Nat} (h : WInv m p a l g) : g ≤ m + 8 * (p - 1) :=
  Nat.le_trans h.ghost (Nat.le_trans (recent_le a l.slots) (h.total ▸ h.ceil))

theorem wInv_update {w m p a now : Nat} {l : Limiter} {g : Nat} (hen : l.enabled = true)
    (h : WInv m p a l g) (hn : now + slotNs ≤ a + w) : WInv m p a (l.update w now) g := by
  have e : l.update w now = ⟨l.enabled, (Limiter.expire w now l.slots l.bitTotal).fst,
      (Limiter.expire w now l.slots l.bitTotal).snd⟩ := by
    simp [Limiter.update, hen]
  rw [e]
  refine ⟨expire_total w now l.slots l.bitTotal h.total, ?_, ?_⟩
  · simpa [recent_expire a w now l.slots l.bitTotal hn] using h.ghost
  · exact Nat.le_trans (expire_le w now l.slots l.bitTotal) h.ceil

theorem wInv_emit {m p a now len padded : Nat} {l : Limiter} {g : Nat} (hen : l.enabled = true)
    (h : WInv m p a l g) (h1 : 1 ≤ len) (h2 : len ≤ l.allowedBytes m) (h3 : padded ≤ p) :
    WInv m p a (l.inform now padded) (if a ≤ now then g + 8 * padded else g) := by
  have hfit := admitted_fits l m len hen h1 h2
  have e : l.inform now padded = ⟨l.enabled, Limiter.addToLast now (padded * 8) l.slots,
      l.bitTotal + padded * 8⟩ := by
    simp [Limiter.inform, hen]
  rw [e]
  refine ⟨by simp [bitsSum_addToLast, h.total], ?_, ?_⟩
  · simp only
    split
    · rename_i ha
      rw [recent_addToLast_eq a now (padded * 8) l.slots ha]
      have := h.ghost; omega
    · exact Nat.le_trans h.ghost (recent_addToLast_ge a now (padded * 8) l.slots)
  · simp only; omega

theorem wInv_empty {m p a : Nat} (en : Bool) : WInv m p a { enabled := en } 0 :=
  ⟨rfl, Nat.zero_le _, Nat.zero_le _⟩

/-- the window bound, generalised over the starting limiter -/
theorem window_core (w m p a b : Nat) (hab : b + slotNs ≤ a + w) (l : Limiter) (t0 : Nat)
    (steps : List Step) (g : Nat) (hen : l.enabled = true) (hv : Valid w m p l t0 steps)
    (hinv : WInv m p a l g) : g + bitsIn a b (emissions steps) ≤ m + 8 * (p - 1) := by
  induction steps generalizing l t0 g with
  | nil => simpa [emissions] using wInv_le hinv
  | cons st rest ih =>
    obtain ⟨ht, hok, hrest⟩ := hv
    by_cases hb : st.time ≤ b
    · cases st with
      | update now =>
        simp only [Step.time] at hb
        exact ih (l.update w now) now g (by simp [hen]) hrest
          (wInv_update hen hinv (by omega))
      | emit now len padded =>
        simp only [Step.time] at hb
        obtain ⟨h1, h2, h3⟩ := hok
        have hi := wInv_emit (a := a) (now := now) hen hinv h1 h2 h3
        have := ih (l.inform now padded) now _ (by simp [hen]) hrest hi
        by_cases ha : a ≤ now
        · simp only [ha, if_true] at this
          have hc : (a ≤ now ∧ now ≤ b) := ⟨ha, hb⟩
          simp only [emissions, bitsIn_cons, hc, and_self, if_true]
          omega
        · simp only [ha, if_false] at this
          have hc : ¬ (a ≤ now ∧ now ≤ b) := fun h => ha h.1
          simpa [emissions, bitsIn_cons, hc] using this
    · have hz2 : bitsIn a b (emissions (st :: rest)) = 0 := by
        have hlate := bitsIn_late w m p a b (st.exec w l) st.time rest hrest (by omega)
        cases st with
        | update now => exact hlate
        | emit now len padded =>
          simp only [Step.time] at hb
          have hc : ¬ (a ≤ now ∧ now ≤ b) := fun h => hb h.2
          simpa [emissions, bitsIn_cons, hc] using hlate
      rw [hz2]; exact wInv_le hinv

/-! ## Part C — the limiter inside `processTx` -/

theorem nearestFd_le {n f : Nat} (h : nearestFd n = some f) : n ≤ f ∧ f ≤ 64 := by
  unfold nearestFd at h
  grind

theorem dlcOf_le {c : Cfg} {n dl : Nat} (h : dlcOf c n = some dl) : n ≤ 64 := by
  unfold dlcOf at h
  split at h
  · contradiction
  · rename_i f hf
    have := nearestFd_le hf; omega

theorem pad_len {c : Cfg} {d pd : Bytes} (h : pad c d = some pd) : d.length ≤ pd.length := by
  unfold pad at h
  split at h
  · contradiction
  · injection h with h; subst h; simp

theorem makeTxMsg_len {c : Cfg} {a : Addr} {i : Nat} {d : Bytes} {msg : CanMsg}
    (h : makeTxMsg c a i d = some msg) : d.length ≤ msg.data.length ∧ msg.data.length ≤ 64 := by
  unfold makeTxMsg at h
  split at h
  · contradiction
  · rename_i pd hpd
    split at h
    · contradiction
    · rename_i dl hdl
      injection h with h; subst h
      exact ⟨pad_len hpd, dlcOf_le hdl⟩

/-- the frames handed to `txfn` so far, newest first: the `Ev.tx` entries of the log -/
def txEvents : List Ev → List (Nat × CanMsg)
  | [] => []
  | .tx t m :: l => (t, m) :: txEvents l
  | _ :: l => txEvents l

/-- the parts of the state the limiter logic depends on are untouched, and nothing was handed
    to `txfn` -/
structure Same (s s' : State) : Prop where
  rl : s'.rl = s.rl
  now : s'.now = s.now
  cfg : s'.cfg = s.cfg
  addr : s'.addr = s.addr
  txlog : txEvents s'.log = txEvents s.log

/-- an emitted data frame passed the admission test: a length `len ≥ 1` not larger than the
    (padded) CAN payload was compared with `allowed`; the payload is at most 64 bytes. -/
def Adm (allowed : Nat) (msg : CanMsg) : Prop :=
  ∃ len, 1 ≤ len ∧ len ≤ allowed ∧ 1 ≤ msg.data.length ∧ msg.data.length ≤ 64

theorem adm_iff (a : Nat) (msg : CanMsg) :
    Adm a msg ↔ 1 ≤ a ∧ 1 ≤ msg.data.length ∧ msg.data.length ≤ 64 := by
  constructor
  · rintro ⟨len, h1, h2, h3, h4⟩; exact ⟨by omega, h3, h4⟩
  · rintro ⟨h1, h2, h3⟩; exact ⟨1, by omega, h1, h2, h3⟩

/-- a parked frame is a well-formed CAN payload -/
def StandbyOk (s : State) : Prop :=
  ∀ msg, s.standby = some msg → 1 ≤ msg.data.length ∧ msg.data.length ≤ 64

theorem same_refl (s : State) : Same s s := ⟨rfl, rfl, rfl, rfl, rfl⟩
theorem same_trans {a b c : State} (h1 : Same a b) (h2 : Same b c) : Same a c :=
  ⟨h2.rl.trans h1.rl, h2.now.trans h1.now, h2.cfg.trans h1.cfg, h2.addr.trans h1.addr,
    h2.txlog.trans h1.txlog⟩
theorem same_raise (s : State) (e : PyExc) : Same s (s.raise e) := ⟨rfl, rfl, rfl, rfl, rfl⟩
theorem same_error (s : State) (e : Err) : Same s (s.error e) := ⟨rfl, rfl, rfl, rfl, rfl⟩
theorem same_stopSending (s : State) (b : Bool) : Same s (s.stopSending b) := by
  unfold stopSending; constructor <;> (split <;> rfl)
theorem same_startRxFcTimer (s : State) : Same s s.startRxFcTimer := ⟨rfl, rfl, rfl, rfl, rfl⟩
theorem same_startRxCfTimer (s : State) : Same s s.startRxCfTimer := ⟨rfl, rfl, rfl, rfl, rfl⟩
@[simp] theorem stopSending_standby (s : State) (b : Bool) : (s.stopSending b).standby = none := by
  unfold stopSending; rfl
@[simp] theorem stopSending_txState (s : State) (b : Bool) : (s.stopSending b).txState = .idle := by
  unfold stopSending; rfl

/-- what `startTx` builds, independently of the limiter -/
inductive Built where
  | fail (s : State)
  | sf (s : State) (len : Nat) (msg : CanMsg)
  | ff (s : State) (len : Nat) (msg : CanMsg)

def buildSf (s : State) (r : Req) (sizeOnFirst : Bool) : Built :=
  match s.consumeActive r r.size true with
  | (_, _, none) => .fail (((s.consumeActive r r.size true).1.error .BadGenerator).stopSending false)
  | (s1, _, some payload) =>
    let hdr : Bytes := if sizeOnFirst then [u8 payload.length] else [0, u8 payload.length]
    let msgData := s1.addr.tx.txPrefix ++ hdr ++ payload
    match makeTxMsg s1.cfg s1.addr (s1.addr.tx.txId r.tat) msgData with
    | none => .fail (s1.raise .ValueError)
    | some msg => .sf s1 msgData.length msg

def buildFf (s : State) (r : Req) (pl : Nat) : Built :=
  let total := r.size
  let short := total ≤ 0xFFF
  let dataLen := if short then s.cfg.txDl - 2 - pl else s.cfg.txDl - 6 - pl
  match s.consumeActive r dataLen true with
  | (s1, _, none) => .fail ((s1.error .BadGenerator).stopSending false)
  | (s1, _, some payload) =>
    let hdr : Bytes :=
      if short then [u8 (0x10 + total / 256 % 16), u8 (total % 256)]
      else [0x10, 0x00, u8 (total / 16777216 % 256), u8 (total / 65536 % 256), u8 (total / 256 % 256), u8 (total % 256)]
    let msgData := s1.addr.tx.txPrefix ++ hdr ++ payload
    let s2 := { s1 with txSeq := 1 }
    match makeTxMsg s2.cfg s2.addr (s2.addr.tx.txId .physical) msgData with
    | none => .fail (s2.raise .ValueError)
    | some msg => .ff s2 msgData.length msg

def buildTx (s : State) (r : Req) : Built :=
  let pl := s.txPrefixLen
  let bigMin := match s.cfg.txMinLen with | some m => m > 8 | none => false
  let sizeOnFirst := (r.remaining + pl ≤ 7) && !bigMin
  let off := if sizeOnFirst then 1 else 2
  if r.size + off + pl ≤ s.cfg.txDl then buildSf s r sizeOnFirst
  else buildFf { s with txFrameLen := r.size } r pl

/-- `startTx` = build the frame, then let the limiter decide between sending and parking -/
def dispatch (a : Nat) : Built → State × Option CanMsg
  | .fail s => (s, none)
  | .sf s len msg =>
    if len > a then ({ s with standby := some msg, txState := .sfStandby }, none)
    else (s.stopSending true, some msg)
  | .ff s len msg =>
    if len ≤ a then (({ s with txState := .waitFc }).startRxFcTimer, some msg)
    else ({ s with standby := some msg, txState := .ffStandby }, none)

theorem startTx_eq (s : State) (r : Req) (a : Nat) : s.startTx r a = dispatch a (buildTx s r) := by
  unfold startTx buildTx buildSf buildFf
  grind [dispatch]

theorem consumeActive_frame (s : State) (r : Req) (n : Nat) (e : Bool) :
    (s.consumeActive r n e).1.standby = s.standby ∧ (s.consumeActive r n e).1.txState = s.txState ∧
    (s.consumeActive r n e).1.exc = s.exc := by
  unfold consumeActive
  grind [emit]

theorem same_consumeActive (s : State) (r : Req) (n : Nat) (e : Bool) :
    Same s (s.consumeActive r n e).1 := by
  unfold consumeActive
  simp only []
  split <;> exact ⟨rfl, rfl, rfl, rfl, rfl⟩

/-- what `buildTx` guarantees: the limiter-relevant state is untouched, and a built frame has an
    unpadded length `len ≥ 1` and a padded CAN payload of `len … 64` bytes -/
def BuiltOk (s : State) : Built → Prop
  | .fail s' => Same s s' ∧ (s'.standby = none ∨ s'.standby = s.standby) ∧
      (s'.txState = .idle ∨ s'.txState = s.txState)
  | .sf s1 len msg => Same s s1 ∧ s1.standby = s.standby ∧ s1.txState = s.txState ∧
      1 ≤ len ∧ len ≤ msg.data.length ∧ msg.data.length ≤ 64
  | .ff s1 len msg => Same s s1 ∧ s1.standby = s.standby ∧ s1.txState = s.txState ∧
      1 ≤ len ∧ len ≤ msg.data.length ∧ msg.data.length ≤ 64

theorem buildSf_spec (s : State) (r : Req) (b : Bool) : BuiltOk s (buildSf s r b) := by
  have hs := same_consumeActive s r r.size true
  have hc := consumeActive_frame s r r.size true
  unfold buildSf
  rcases hca : s.consumeActive r r.size true with ⟨s1, r1, _ | payload⟩ <;> rw [hca] at hs hc <;>
    simp only [] at hs hc ⊢
  · exact ⟨same_trans hs (same_trans (same_error _ _) (same_stopSending _ _)), Or.inl (by simp),
      Or.inl (by simp)⟩
  · split
    · exact ⟨same_trans hs (same_raise _ _), Or.inr hc.1, Or.inr hc.2.1⟩
    · rename_i msg hm
      have hl := makeTxMsg_len hm
      refine ⟨hs, hc.1, hc.2.1, ?_, hl.1, hl.2⟩
      simp only [List.length_append]
      split <;> simp <;> omega

theorem buildFf_spec (s : State) (r : Req) (pl : Nat) : BuiltOk s (buildFf s r pl) := by
  unfold buildFf
  simp only []
  have hs := same_consumeActive s r
    (if r.size ≤ 0xFFF then s.cfg.txDl - 2 - pl else s.cfg.txDl - 6 - pl) true
  have hc := consumeActive_frame s r
    (if r.size ≤ 0xFFF then s.cfg.txDl - 2 - pl else s.cfg.txDl - 6 - pl) true
  rcases hca : s.consumeActive r (if r.size ≤ 0xFFF then s.cfg.txDl - 2 - pl else s.cfg.txDl - 6 - pl) true
    with ⟨s1, r1, _ | payload⟩ <;> rw [hca] at hs hc <;> simp only [] at hs hc ⊢
  · exact ⟨same_trans hs (same_trans (same_error _ _) (same_stopSending _ _)), Or.inl (by simp),
      Or.inl (by simp)⟩
  · split
    · exact ⟨same_trans hs ⟨rfl, rfl, rfl, rfl, rfl⟩, Or.inr hc.1, Or.inr hc.2.1⟩
    · rename_i msg hm
      have hl := makeTxMsg_len hm
      refine ⟨same_trans hs ⟨rfl, rfl, rfl, rfl, rfl⟩, hc.1, hc.2.1, ?_, hl.1, hl.2⟩
      simp only [List.length_append]
      split <;> simp <;> omega

theorem builtOk_ite (s : State) (c : Prop) [Decidable c] (x y : Built) (hx : BuiltOk s x)
    (hy : BuiltOk s y) : BuiltOk s (if c then x else y) := by
  split <;> assumption

theorem builtOk_of_same (s s0 : State) (b : Built) (h : Same s s0) (h1 : s0.standby = s.standby)
    (h2 : s0.txState = s.txState) (hb : BuiltOk s0 b) : BuiltOk s b := by
  cases b <;> simp only [BuiltOk] at hb ⊢
  · exact ⟨same_trans h hb.1, by rw [← h1]; exact hb.2.1, by rw [← h2]; exact hb.2.2⟩
  · exact ⟨same_trans h hb.1, hb.2.1.trans h1, hb.2.2.1.trans h2, hb.2.2.2⟩
  · exact ⟨same_trans h hb.1, hb.2.1.trans h1, hb.2.2.1.trans h2, hb.2.2.2⟩

theorem buildTx_spec (s : State) (r : Req) : BuiltOk s (buildTx s r) := by
  unfold buildTx
  exact builtOk_ite s _ _ _ (buildSf_spec s r _)
    (builtOk_of_same s { s with txFrameLen := r.size } _ ⟨rfl, rfl, rfl, rfl, rfl⟩ rfl rfl
      (buildFf_spec _ r _))

theorem consume_len (r : Req) (n : Nat) (e : Bool) (d : Bytes) (h : (r.consume n e).2 = some d) :
    d.length ≤ n := by
  unfold Req.consume at h
  grind [List.length_take]

theorem consumeActive_len (s : State) (r : Req) (n : Nat) (e : Bool) (d : Bytes)
    (h : (s.consumeActive r n e).2.2 = some d) : d.length ≤ n := by
  unfold consumeActive at h
  exact consume_len r n e d h

/-- the limiter withholds a due Consecutive Frame -/
def cfHeld (s : State) (allowed : Nat) : Prop :=
  ∃ rbs r, s.remoteBs = some rbs ∧ s.active = some r ∧ s.timerStmin.timedOut s.now = true ∧
    allowed < min (s.cfg.txDl - 1 - s.txPrefixLen) r.remaining

theorem transmitCf_held (s : State) (a : Nat) (h : cfHeld s a) : s.transmitCf a = (s, none, false) := by
  obtain ⟨rbs, r, h1, h2, h3, h4⟩ := h
  unfold transmitCf
  simp only [h1, h2, h3, if_true]
  have : ¬ (min (s.cfg.txDl - 1 - s.txPrefixLen) r.remaining ≤ a) := by omega
  simp only [this, if_false]

theorem transmitCf_indep (s : State) (a a' : Nat) (h : ¬ cfHeld s a) (h' : ¬ cfHeld s a') :
    s.transmitCf a = s.transmitCf a' := by
  unfold cfHeld at h h'
  unfold transmitCf
  grind

/-- inner part of `transmitCf`: build the Consecutive Frame -/
def cfFrame (s : State) (payload : Bytes) : State × Option CanMsg × Bool :=
  if payload.length > 0 then
    let msgData := s.addr.tx.txPrefix ++ [u8 (0x20 + s.txSeq)] ++ payload
    match makeTxMsg s.cfg s.addr (s.addr.tx.txId .physical) msgData with
    | none => (s.raise .ValueError, none, true)
    | some msg =>
      ({ s with txSeq := (s.txSeq + 1) % 16, timerStmin := s.timerStmin.startAt s.now,
                txBlockCnt := s.txBlockCnt + 1 }, some msg, false)
  else (s, none, false)

/-- tail of `transmitCf`: end of message / end of block -/
def cfFinish (rbs : Nat) (r' : Req) (x : State × Option CanMsg × Bool) : State × Option CanMsg × Bool :=
  if x.2.2 then (x.1, none, false) else
  if r'.depleted then
    if r'.remaining > 0 then ((x.1.error .BadGenerator).stopSending false, x.2.1, false)
    else (x.1.stopSending true, x.2.1, false)
  else if rbs ≠ 0 && x.1.txBlockCnt ≥ rbs then
    (({ x.1 with txState := .waitFc }).startRxFcTimer, x.2.1, true)
  else (x.1, x.2.1, false)

theorem transmitCf_eq (s : State) (a : Nat) : s.transmitCf a =
    match s.remoteBs, s.active with
    | none, _ => (s.raise .AssertionError, none, false)
    | _, none => (s.raise .AssertionError, none, false)
    | some rbs, some r =>
      if s.timerStmin.timedOut s.now then
        if min (s.cfg.txDl - 1 - s.txPrefixLen) r.remaining ≤ a then
          match (s.consumeActive r (min (s.cfg.txDl - 1 - s.txPrefixLen) r.remaining) false).2.2 with
          | none => ((s.consumeActive r (min (s.cfg.txDl - 1 - s.txPrefixLen) r.remaining) false).1.raise
                      .AssertionError, none, false)
          | some payload =>
            cfFinish rbs (s.consumeActive r (min (s.cfg.txDl - 1 - s.txPrefixLen) r.remaining) false).2.1
              (cfFrame (s.consumeActive r (min (s.cfg.txDl - 1 - s.txPrefixLen) r.remaining) false).1 payload)
        else (s, none, false)
      else (s, none, false) := by
  unfold transmitCf
  rcases h1 : s.remoteBs with _ | rbs <;> rcases h2 : s.active with _ | r <;> simp only []
  rcases ht : s.timerStmin.timedOut s.now with _ | _ <;> simp only [Bool.false_eq_true, if_false, if_true]
  · by_cases hp : min (s.cfg.txDl - 1 - s.txPrefixLen) r.remaining ≤ a <;> simp only [hp, if_true, if_false]
    rcases hca : s.consumeActive r (min (s.cfg.txDl - 1 - s.txPrefixLen) r.remaining) false with ⟨s1, r', res⟩
    cases res with
    | none => rfl
    | some payload =>
      simp only []
      unfold cfFinish cfFrame
      by_cases hl : payload.length > 0 <;> simp only [hl, if_true, if_false]
      · rcases hm : makeTxMsg s1.cfg s1.addr (s1.addr.tx.txId Tat.physical)
                    (s1.addr.tx.txPrefix ++ [u8 (32 + s1.txSeq)] ++ payload) with _ | msg <;> simp

theorem cfFrame_spec (s : State) (p : Bytes) :
    Same s (cfFrame s p).1 ∧ (cfFrame s p).1.standby = s.standby ∧
    (cfFrame s p).1.txState = s.txState ∧
    (∀ msg, (cfFrame s p).2.1 = some msg → 1 ≤ p.length ∧ 1 ≤ msg.data.length ∧ msg.data.length ≤ 64) := by
  unfold cfFrame
  refine ⟨?_, ?_, ?_, ?_⟩
  · constructor <;> grind [raise]
  · grind [raise]
  · grind [raise]
  · intro msg h
    split at h
    · simp only [] at h
      split at h
      · simp at h
      · rename_i m hm
        simp at h; subst h
        have := makeTxMsg_len hm
        simp at this
        omega
    · simp at h

theorem cfFinish_spec (rbs : Nat) (r' : Req) (x : State × Option CanMsg × Bool) :
    Same x.1 (cfFinish rbs r' x).1 ∧
    ((cfFinish rbs r' x).1.standby = none ∨ (cfFinish rbs r' x).1.standby = x.1.standby) ∧
    ((cfFinish rbs r' x).1.txState = .idle ∨ (cfFinish rbs r' x).1.txState = .waitFc ∨
      (cfFinish rbs r' x).1.txState = x.1.txState) ∧
    ((cfFinish rbs r' x).2.1 = none ∨ (cfFinish rbs r' x).2.1 = x.2.1) := by
  unfold cfFinish
  split
  · exact ⟨same_refl _, Or.inr rfl, Or.inr (Or.inr rfl), Or.inl rfl⟩
  · split
    · split
      · exact ⟨same_trans (same_error _ _) (same_stopSending _ _), Or.inl (by simp), Or.inl (by simp),
          Or.inr rfl⟩
      · exact ⟨same_stopSending _ _, Or.inl (by simp), Or.inl (by simp), Or.inr rfl⟩
    · split
      · exact ⟨⟨rfl, rfl, rfl, rfl, rfl⟩, Or.inr rfl, Or.inr (Or.inl rfl), Or.inr rfl⟩
      · exact ⟨same_refl _, Or.inr rfl, Or.inr (Or.inr rfl), Or.inr rfl⟩

theorem transmitCf_spec (s : State) (a : Nat) :
    Same s (s.transmitCf a).1 ∧
    ((s.transmitCf a).1.standby = none ∨ (s.transmitCf a).1.standby = s.standby) ∧
    ((s.transmitCf a).1.txState = .idle ∨ (s.transmitCf a).1.txState = .waitFc ∨
      (s.transmitCf a).1.txState = s.txState) ∧
    (∀ msg, (s.transmitCf a).2.1 = some msg → Adm a msg) := by
  rw [transmitCf_eq]
  simp only [adm_iff]
  split
  · exact ⟨same_raise _ _, Or.inr rfl, Or.inr (Or.inr rfl), by simp⟩
  · exact ⟨same_raise _ _, Or.inr rfl, Or.inr (Or.inr rfl), by simp⟩
  · rename_i rbs r _ _
    split
    · split
      · rename_i hp
        have hc := consumeActive_frame s r (min (s.cfg.txDl - 1 - s.txPrefixLen) r.remaining) false
        have hs := same_consumeActive s r (min (s.cfg.txDl - 1 - s.txPrefixLen) r.remaining) false
        have hl := consumeActive_len s r (min (s.cfg.txDl - 1 - s.txPrefixLen) r.remaining) false
        split
        · exact ⟨same_trans hs (same_raise _ _), Or.inr hc.1, Or.inr (Or.inr hc.2.1), by simp⟩
        · rename_i payload hpay
          have h1 := cfFrame_spec (s.consumeActive r (min (s.cfg.txDl - 1 - s.txPrefixLen) r.remaining) false).1 payload
          have h2 := cfFinish_spec rbs (s.consumeActive r (min (s.cfg.txDl - 1 - s.txPrefixLen) r.remaining) false).2.1
            (cfFrame (s.consumeActive r (min (s.cfg.txDl - 1 - s.txPrefixLen) r.remaining) false).1 payload)
          have hl' := hl payload hpay
          refine ⟨same_trans hs (same_trans h1.1 h2.1), ?_, ?_, ?_⟩
          · grind
          · grind
          · intro msg hm
            rcases h2.2.2.2 with h | h
            · rw [h] at hm; simp at hm
            · rw [h] at hm
              have := h1.2.2.2 msg hm
              omega
      · exact ⟨same_refl _, Or.inr rfl, Or.inr (Or.inr rfl), by simp⟩
    · exact ⟨same_refl _, Or.inr rfl, Or.inr (Or.inr rfl), by simp⟩
/-- `processTx`, part 1: the pending Flow Control requested by the receive side -/
def txPend (s : State) : State × Option (Option CanMsg) :=
  if s.pendingFc then
    let s := { s with pendingFc := false }
    match s.pendingFcStatus with
    | none => (s.raise .AttributeError, some none)
    | some st =>
      let s := if st = 0 then s.startRxCfTimer else s
      if !s.cfg.listen then
        match makeFlowControl s.cfg s.addr st with
        | none => (s.raise .ValueError, some none)
        | some msg => (s, some (some msg))
      else (s, none)
  else (s, none)

/-- part 2: the received Flow Control -/
def txFcIn (s : State) : State × Bool :=
  let fc := s.lastFc
  let s := { s with lastFc := none }
  match fc with
  | some f => if f.status = 2 then (((s.stopSending false).error .Overflow), true) else (s.handleFc f, false)
  | none => (s, false)

/-- part 3: N_Bs timeout -/
def txGuard (s : State) : State :=
  if s.timerFc.timedOut s.now then (s.error .FlowControlTimeout).stopSending false else s

/-- part 4: a depleted request ends the transmission -/
def txDone (s : State) : State :=
  if s.txState ≠ .idle && (match s.active with | some r => r.depleted | none => false) && s.standby.isNone
  then s.stopSending true else s

/-- part 5: the state machine -/
def txFsm (allowed : Nat) (s : State) : State × Option CanMsg × Bool :=
  match s.txState with
  | .idle =>
    let (s, out) := s.readTxQueue allowed s.txQueue
    (s, out, false)
  | .sfStandby | .ffStandby =>
    match s.standby with
    | some msg =>
      if msg.data.length ≤ allowed then
        let s := { s with standby := none }
        if s.txState = .ffStandby then
          (({ s.startRxFcTimer with txState := .waitFc }), some msg, false)
        else (s.stopSending true, some msg, false)
      else (s, none, false)
    | none => (s, none, false)
  | .waitFc => (s, none, false)
  | .transmitCf => s.transmitCf allowed

/-- part 6: tell the limiter what was sent -/
def txAccount (x : State × Option CanMsg × Bool) : State × Option CanMsg × Bool :=
  if x.1.exc.isSome then (x.1, none, false) else
  match x.2.1 with
  | some msg => ({ x.1 with rl := x.1.rl.inform x.1.now msg.data.length }, some msg, x.2.2)
  | none => (x.1, none, x.2.2)

theorem processTx_eq (s : State) : s.processTx =
    match txPend s with
    | (s1, some none) => (s1, none, false)
    | (s1, some (some msg)) => (s1, some msg, true)
    | (s1, none) =>
      match txFcIn s1 with
      | (s2, true) => (s2, none, false)
      | (s2, false) =>
        if (txGuard s2).txState ≠ .idle && (txGuard s2).active.isNone then
          ((txGuard s2).raise .AssertionError, none, false)
        else txAccount (txFsm (s.rl.allowedBytes s.cfg.rlBitMax) (txDone (txGuard s2))) := by
  rfl

/-- the transmit FSM is not in a rate-limiter standby state -/
def NoStandbySt (s : State) : Prop := s.txState ≠ .sfStandby ∧ s.txState ≠ .ffStandby


theorem startTx_spec (s : State) (r : Req) (a : Nat) :
    Same s (s.startTx r a).1 ∧ (StandbyOk s → StandbyOk (s.startTx r a).1) ∧
    (∀ msg, (s.startTx r a).2 = some msg → Adm a msg) ∧
    (64 ≤ a → NoStandbySt s → NoStandbySt (s.startTx r a).1) := by
  rw [startTx_eq]
  have hb := buildTx_spec s r
  simp only [adm_iff]
  unfold StandbyOk NoStandbySt
  rcases hbt : buildTx s r with s' | ⟨s1, len, msg⟩ | ⟨s1, len, msg⟩ <;> rw [hbt] at hb <;>
    simp only [dispatch, BuiltOk] at hb ⊢
  · refine ⟨hb.1, ?_, by simp, ?_⟩ <;> grind
  · obtain ⟨hs, h1, h2, h3, h4, h5⟩ := hb
    split
    · refine ⟨⟨hs.rl, hs.now, hs.cfg, hs.addr, hs.txlog⟩, ?_, by simp, ?_⟩
      · intro _ m hm; simp at hm; subst hm; omega
      · intro ha; omega
    · refine ⟨same_trans hs (same_stopSending _ _), ?_, ?_, ?_⟩
      · intro _ m hm; simp at hm
      · intro m hm; simp at hm; subst hm; omega
      · intro _ _; simp
  · obtain ⟨hs, h1, h2, h3, h4, h5⟩ := hb
    split
    · refine ⟨same_trans hs ⟨rfl, rfl, rfl, rfl, rfl⟩, ?_, ?_, ?_⟩
      · intro h m hm; simp [startRxFcTimer] at hm; exact h m (h1 ▸ hm)
      · intro m hm; simp at hm; subst hm; omega
      · intro _ _; simp [startRxFcTimer]
    · refine ⟨⟨hs.rl, hs.now, hs.cfg, hs.addr, hs.txlog⟩, ?_, by simp, ?_⟩
      · intro _ m hm; simp at hm; subst hm; omega
      · intro ha; omega

theorem readTxQueue_spec (s : State) (a : Nat) (q : List Req) :
    Same s (s.readTxQueue a q).1 ∧ (StandbyOk s → StandbyOk (s.readTxQueue a q).1) ∧
    (∀ msg, (s.readTxQueue a q).2 = some msg → Adm a msg) ∧
    (64 ≤ a → NoStandbySt s → NoStandbySt (s.readTxQueue a q).1) := by
  fun_induction readTxQueue s a q with
  | case1 s => exact ⟨⟨rfl, rfl, rfl, rfl, rfl⟩, fun h => h, by simp, fun _ h => h⟩
  | case2 s r rest s' hd ih =>
    obtain ⟨i1, i2, i3, i4⟩ := ih
    exact ⟨⟨i1.rl, i1.now, i1.cfg, i1.addr, i1.txlog⟩, fun h => i2 h, i3, fun ha h => i4 ha h⟩
  | case3 s r rest s' hd =>
    obtain ⟨i1, i2, i3, i4⟩ := startTx_spec s' r a
    exact ⟨⟨i1.rl, i1.now, i1.cfg, i1.addr, i1.txlog⟩, fun h => i2 h, i3, fun ha h => i4 ha h⟩

/-- what the non-FSM parts of `processTx` preserve -/
structure Keep (s s' : State) : Prop where
  same : Same s s'
  standby : s'.standby = none ∨ s'.standby = s.standby
  st : NoStandbySt s → NoStandbySt s'

theorem keep_refl (s : State) : Keep s s := ⟨same_refl s, Or.inr rfl, fun h => h⟩

theorem keep_trans {a b c : State} (h1 : Keep a b) (h2 : Keep b c) : Keep a c := by
  refine ⟨same_trans h1.same h2.same, ?_, fun h => h2.st (h1.st h)⟩
  rcases h2.standby with h | h
  · exact Or.inl h
  · rcases h1.standby with h' | h'
    · exact Or.inl (h.trans h')
    · exact Or.inr (h.trans h')

theorem Keep.standbyOk {s s' : State} (h : Keep s s') (hs : StandbyOk s) : StandbyOk s' := by
  intro m hm
  rcases h.standby with h' | h'
  · rw [h'] at hm; simp at hm
  · exact hs m (h' ▸ hm)

theorem keep_stopSending (s : State) (b : Bool) : Keep s (s.stopSending b) :=
  ⟨same_stopSending s b, Or.inl (by simp), fun _ => by simp [NoStandbySt]⟩

theorem keep_error (s : State) (e : Err) : Keep s (s.error e) :=
  ⟨same_error s e, Or.inr rfl, fun h => h⟩

theorem keep_raise (s : State) (e : PyExc) : Keep s (s.raise e) :=
  ⟨same_raise s e, Or.inr rfl, fun h => h⟩

theorem keep_handleFc (s : State) (f : FcFrame) : Keep s (s.handleFc f) := by
  unfold handleFc
  refine ⟨?_, ?_, ?_⟩
  · constructor <;> grind [stopSending, State.error, emit, startRxFcTimer, txEvents]
  · grind [stopSending, State.error, emit, startRxFcTimer]
  · unfold NoStandbySt; grind [stopSending, State.error, emit, startRxFcTimer]

theorem keep_txPend (s : State) : Keep s (txPend s).1 := by
  unfold txPend
  refine ⟨?_, ?_, ?_⟩
  · constructor <;> grind [raise, startRxCfTimer]
  · grind [raise, startRxCfTimer]
  · unfold NoStandbySt; grind [raise, startRxCfTimer]

theorem keep_txFcIn (s : State) : Keep s (txFcIn s).1 := by
  unfold txFcIn
  simp only []
  split
  · split
    · exact keep_trans (b := { s with lastFc := none }) ⟨⟨rfl, rfl, rfl, rfl, rfl⟩, Or.inr rfl, fun h => h⟩
        (keep_trans (keep_stopSending _ _) (keep_error _ _))
    · exact keep_trans (b := { s with lastFc := none }) ⟨⟨rfl, rfl, rfl, rfl, rfl⟩, Or.inr rfl, fun h => h⟩
        (keep_handleFc _ _)
  · exact ⟨⟨rfl, rfl, rfl, rfl, rfl⟩, Or.inr rfl, fun h => h⟩

theorem keep_txGuard (s : State) : Keep s (txGuard s) := by
  unfold txGuard
  split
  · exact keep_trans (keep_error _ _) (keep_stopSending _ _)
  · exact keep_refl s

theorem keep_txDone (s : State) : Keep s (txDone s) := by
  unfold txDone
  by_cases h : (s.txState ≠ .idle && (match s.active with | some r => r.depleted | none => false) &&
      s.standby.isNone) = true
  · rw [if_pos h]; exact keep_stopSending _ _
  · rw [if_neg h]; exact keep_refl s

theorem txFsm_standby (a : Nat) (s : State) (hsb : StandbyOk s)
    (hst : s.txState = .sfStandby ∨ s.txState = .ffStandby) :
    let x : State × Option CanMsg × Bool :=
      match s.standby with
      | some msg =>
        if msg.data.length ≤ a then
          let s := { s with standby := none }
          if s.txState = .ffStandby then
            (({ s.startRxFcTimer with txState := .waitFc }), some msg, false)
          else (s.stopSending true, some msg, false)
        else (s, none, false)
      | none => (s, none, false)
    Same s x.1 ∧ StandbyOk x.1 ∧ (∀ msg, x.2.1 = some msg → Adm a msg) ∧
    (64 ≤ a → NoStandbySt s → NoStandbySt x.1) := by
  have hno : ¬ NoStandbySt s := by
    unfold NoStandbySt; rcases hst with h | h <;> simp [h]
  intro x
  rcases hmsg : s.standby with _ | msg
  · simp only [x, hmsg]
    exact ⟨same_refl s, hsb, by simp, fun _ h => h⟩
  · have hlen := hsb msg hmsg
    by_cases hle : msg.data.length ≤ a
    · have hadm : Adm a msg := (adm_iff a msg).mpr ⟨by omega, hlen.1, hlen.2⟩
      by_cases hff : s.txState = .ffStandby
      · simp only [x, hmsg, hle, hff, if_true]
        refine ⟨⟨rfl, rfl, rfl, rfl, rfl⟩, ?_, ?_, fun _ h => absurd h hno⟩
        · intro m hm; simp [startRxFcTimer] at hm
        · intro m hm; simp at hm; subst hm; exact hadm
      · simp only [x, hmsg, hle, hff, if_true, if_false]
        refine ⟨same_trans (b := { s with standby := none }) ⟨rfl, rfl, rfl, rfl, rfl⟩ (same_stopSending _ _),
            ?_, ?_, fun _ h => absurd h hno⟩
        · intro m hm; simp at hm
        · intro m hm; simp at hm; subst hm; exact hadm
    · simp only [x, hmsg, hle, if_false]
      exact ⟨same_refl s, hsb, by simp, fun _ h => h⟩

theorem txFsm_spec (a : Nat) (s : State) (hsb : StandbyOk s) :
    Same s (txFsm a s).1 ∧ StandbyOk (txFsm a s).1 ∧
    (∀ msg, (txFsm a s).2.1 = some msg → Adm a msg) ∧
    (64 ≤ a → NoStandbySt s → NoStandbySt (txFsm a s).1) := by
  unfold txFsm
  split
  · obtain ⟨i1, i2, i3, i4⟩ := readTxQueue_spec s a s.txQueue
    exact ⟨i1, i2 hsb, i3, i4⟩
  · rename_i hst
    exact txFsm_standby a s hsb (Or.inl hst)
  · rename_i hst
    exact txFsm_standby a s hsb (Or.inr hst)
  · exact ⟨same_refl s, hsb, by simp, fun _ h => h⟩
  · obtain ⟨i1, i2, i3, i4⟩ := transmitCf_spec s a
    refine ⟨i1, ?_, i4, ?_⟩
    · intro m hm
      rcases i2 with h | h
      · rw [h] at hm; simp at hm
      · exact hsb m (h ▸ hm)
    · rename_i hst
      intro _ _
      unfold NoStandbySt
      rcases i3 with h | h | h <;> simp [h, hst]

theorem txPend_kind (s : State) :
    match (txPend s).2 with
    | some none => True
    | some (some msg) => ∃ st, s.pendingFc = true ∧ s.cfg.listen = false ∧ s.pendingFcStatus = some st ∧
        makeFlowControl s.cfg s.addr st = some msg
    | none => s.pendingFc = false ∨ s.cfg.listen = true := by
  unfold txPend
  grind [raise, startRxCfTimer]

theorem txAccount_spec (x : State × Option CanMsg × Bool) :
    (txAccount x).1.now = x.1.now ∧ (txAccount x).1.cfg = x.1.cfg ∧ (txAccount x).1.addr = x.1.addr ∧
    (txAccount x).1.standby = x.1.standby ∧ (txAccount x).1.txState = x.1.txState ∧
    (txAccount x).1.log = x.1.log ∧
    (((txAccount x).2.1 = none ∧ (txAccount x).1.rl = x.1.rl) ∨
     (∃ msg, x.2.1 = some msg ∧ (txAccount x).2.1 = some msg ∧
        (txAccount x).1.rl = x.1.rl.inform x.1.now msg.data.length ∧ (txAccount x).1.exc = none)) := by
  unfold txAccount
  split
  · simp
  · rename_i hexc
    split
    · rename_i msg hm
      refine ⟨rfl, rfl, rfl, rfl, rfl, rfl, Or.inr ⟨msg, hm, rfl, rfl, ?_⟩⟩
      simpa using hexc
    · simp

/-- one `processTx` pass, as seen by the rate limiter -/
structure PassSpec (s : State) (r : State × Option CanMsg × Bool) : Prop where
  now : r.1.now = s.now
  cfg : r.1.cfg = s.cfg
  addr : r.1.addr = s.addr
  txlog : txEvents r.1.log = txEvents s.log
  standbyOk : StandbyOk r.1
  noStandby : 64 ≤ s.rl.allowedBytes s.cfg.rlBitMax → NoStandbySt s → NoStandbySt r.1
  kind :
    (r.2.1 = none ∧ r.1.rl = s.rl) ∨
    (∃ st msg, s.pendingFc = true ∧ s.cfg.listen = false ∧ s.pendingFcStatus = some st ∧
      makeFlowControl s.cfg s.addr st = some msg ∧ r.2.1 = some msg ∧ r.1.rl = s.rl) ∨
    (∃ msg, (s.pendingFc = false ∨ s.cfg.listen = true) ∧ r.2.1 = some msg ∧
      Adm (s.rl.allowedBytes s.cfg.rlBitMax) msg ∧ r.1.rl = s.rl.inform s.now msg.data.length ∧
      r.1.exc = none)

theorem PassSpec.of_keep {s s' : State} (h : Keep s s') (hsb : StandbyOk s) : PassSpec s (s', none, false) :=
  ⟨h.same.now, h.same.cfg, h.same.addr, h.same.txlog, h.standbyOk hsb, fun _ hn => h.st hn, Or.inl ⟨rfl, h.same.rl⟩⟩

theorem processTx_spec (s : State) (hsb : StandbyOk s) : PassSpec s s.processTx := by
  rw [processTx_eq]
  have hk1 := keep_txPend s
  have hkind := txPend_kind s
  rcases hp : txPend s with ⟨s1, _ | _ | msg⟩ <;> rw [hp] at hk1 hkind <;> simp only [] at hk1 hkind ⊢
  · -- FSM part
    have hk2 := keep_txFcIn s1
    rcases hf : txFcIn s1 with ⟨s2, _ | _⟩ <;> rw [hf] at hk2 <;> simp only [] at hk2 ⊢
    · have hk3 := keep_trans (keep_trans hk1 hk2) (keep_txGuard s2)
      split
      · exact PassSpec.of_keep (keep_trans hk3 (keep_raise _ _)) hsb
      · have hk4 := keep_trans hk3 (keep_txDone (txGuard s2))
        have hsb4 := hk4.standbyOk hsb
        obtain ⟨f1, f2, f3, f4⟩ := txFsm_spec (s.rl.allowedBytes s.cfg.rlBitMax) (txDone (txGuard s2)) hsb4
        obtain ⟨a1, a2, a3, a4, a5, a7, a6⟩ :=
          txAccount_spec (txFsm (s.rl.allowedBytes s.cfg.rlBitMax) (txDone (txGuard s2)))
        have hsame := same_trans hk4.same f1
        refine ⟨a1.trans hsame.now, a2.trans hsame.cfg, a3.trans hsame.addr, (by rw [a7]; exact hsame.txlog),
          ?_, ?_, ?_⟩
        · intro m hm; exact f2 m (a4 ▸ hm)
        · intro ha hn
          have := f4 ha (hk4.st hn)
          unfold NoStandbySt at this ⊢
          rw [a5]; exact this
        · rcases a6 with ⟨h1, h2⟩ | ⟨msg, h1, h2, h3, h4⟩
          · exact Or.inl ⟨h1, h2.trans hsame.rl⟩
          · refine Or.inr (Or.inr ⟨msg, hkind, h2, f3 msg h1, ?_, h4⟩)
            rw [h3, hsame.rl, hsame.now]
    · exact PassSpec.of_keep (keep_trans hk1 hk2) hsb
  · exact PassSpec.of_keep hk1 hsb
  · obtain ⟨st, h1, h2, h3, h4⟩ := hkind
    exact ⟨hk1.same.now, hk1.same.cfg, hk1.same.addr, hk1.same.txlog, hk1.standbyOk hsb, fun _ hn => hk1.st hn,
      Or.inr (Or.inl ⟨st, msg, h1, h2, h3, h4, rfl, hk1.same.rl⟩)⟩
/-! ## Part D — `rxLoop`, `txLoop`, `processLoop`, sessions -/

/-- what the receive path and the non-`process` API calls preserve: they never touch the limiter,
    the parked frame, the transmit FSM state, nor hand a frame to `txfn`; time only advances -/
structure RxKeep (s s' : State) : Prop where
  rl : s'.rl = s.rl
  cfg : s'.cfg = s.cfg
  addr : s'.addr = s.addr
  standby : s'.standby = s.standby
  txState : s'.txState = s.txState
  now : s.now ≤ s'.now
  txlog : txEvents s'.log = txEvents s.log

theorem rxKeep_refl (s : State) : RxKeep s s := ⟨rfl, rfl, rfl, rfl, rfl, Nat.le_refl _, rfl⟩
theorem rxKeep_trans {a b c : State} (h1 : RxKeep a b) (h2 : RxKeep b c) : RxKeep a c :=
  ⟨h2.rl.trans h1.rl, h2.cfg.trans h1.cfg, h2.addr.trans h1.addr, h2.standby.trans h1.standby,
    h2.txState.trans h1.txState, Nat.le_trans h1.now h2.now, h2.txlog.trans h1.txlog⟩

theorem log_error (s : State) (e : Err) : txEvents (s.error e).log = txEvents s.log := rfl
theorem log_deliver (s : State) (p : Bytes) : txEvents (s.deliver p).log = txEvents s.log := rfl
theorem log_stopReceiving (s : State) : (s.stopReceiving).log = s.log := rfl
theorem log_requestFc (s : State) (n : Nat) : (s.requestFc n).log = s.log := rfl
theorem log_startRxCfTimer (s : State) : (s.startRxCfTimer).log = s.log := rfl

theorem txlog_startReception (s : State) (len : Nat) (d : Bytes) (dl : Nat) :
    txEvents (s.startReception len d dl).1.log = txEvents s.log := by
  unfold startReception
  grind [log_error, log_deliver, log_stopReceiving, log_requestFc, log_startRxCfTimer]

theorem txlog_processRx (s : State) (m : CanMsg) :
    txEvents (s.processRx m).1.log = txEvents s.log := by
  unfold processRx
  grind [log_error, log_deliver, log_stopReceiving, log_requestFc, log_startRxCfTimer, txlog_startReception]

theorem rxKeep_processRx (s : State) (m : CanMsg) : RxKeep s (s.processRx m).1 := by
  refine ⟨?_, ?_, ?_, ?_, ?_, ?_, txlog_processRx s m⟩ <;> unfold processRx startReception <;>
    grind [deliver, stopReceiving, State.error, emit, requestFc, startRxCfTimer]

theorem rxKeep_checkTimeoutsRx (s : State) : RxKeep s s.checkTimeoutsRx := by
  unfold checkTimeoutsRx
  split
  · exact ⟨rfl, rfl, rfl, rfl, rfl, Nat.le_refl _, rfl⟩
  · exact rxKeep_refl s

theorem rxKeep_rxHead (s : State) (dt : Nat) (m : CanMsg) (rest : List (Nat × CanMsg)) :
    RxKeep s ((({ s with inbox := rest, now := s.now + dt } : State).emit
      (.rx (s.now + dt) m)).checkTimeoutsRx) :=
  rxKeep_trans (b := (({ s with inbox := rest, now := s.now + dt } : State).emit (.rx (s.now + dt) m)))
    ⟨rfl, rfl, rfl, rfl, rfl, Nat.le_add_right _ _, rfl⟩ (rxKeep_checkTimeoutsRx _)

theorem rxKeep_rxLoop (doTx : Bool) (s : State) (st : Stats) (inb : List (Nat × CanMsg)) :
    RxKeep s (s.rxLoop doTx st inb).1 := by
  fun_induction rxLoop doTx s st inb with
  | case1 s st =>
    exact rxKeep_trans (b := (({ s with inbox := [] } : State).emit (.rxNone s.now)))
      ⟨rfl, rfl, rfl, rfl, rfl, Nat.le_refl _, rfl⟩ (rxKeep_checkTimeoutsRx _)
  | case2 s st dt m rest s2 s1 st2 hfm st1 s' fr st' hx =>
    have h2 := rxKeep_processRx s1 m
    rw [hx] at h2
    exact rxKeep_trans (rxKeep_rxHead s dt m rest) h2
  | case3 s st dt m rest s2 s1 st2 hfm st1 s' imm fr hx st' himm htd =>
    have h2 := rxKeep_processRx s1 m
    rw [hx] at h2
    exact rxKeep_trans (rxKeep_rxHead s dt m rest) h2
  | case4 s st dt m rest s2 s1 st2 hfm st1 s' imm fr hx st' himm htd ih =>
    have h2 := rxKeep_processRx s1 m
    rw [hx] at h2
    exact rxKeep_trans (rxKeep_trans (rxKeep_rxHead s dt m rest) h2) ih
  | case5 s st dt m rest s2 s1 st2 hfm htd => exact rxKeep_rxHead s dt m rest
  | case6 s st dt m rest s2 s1 st2 hfm htd ih => exact rxKeep_trans (rxKeep_rxHead s dt m rest) ih

/-! ### `txLoop` -/

/-- The frames handed to `txfn` during one `txLoop`, oldest first. The tag is `true` for a data
    frame (Single / First / Consecutive Frame, produced by the transmit FSM and subject to the
    limiter) and `false` for a Flow Control frame (produced by the pending-FC branch). -/
def txLoopFrames : Nat → State → List (Nat × CanMsg × Bool)
  | 0, _ => []
  | f + 1, s =>
    if s.processTx.1.exc.isSome then [] else
    match s.processTx.2.1 with
    | some m =>
      (s.now, m, !(s.pendingFc && !s.cfg.listen)) ::
        (if s.processTx.2.2 then [] else
          txLoopFrames f (s.processTx.1.emit (.tx s.processTx.1.now m)))
    | none => []

/-- (time, frame) of all frames -/
def allFrames (fr : List (Nat × CanMsg × Bool)) : List (Nat × CanMsg) := fr.map (fun x => (x.1, x.2.1))

/-- (time, data-field bits) of the data frames -/
def dataBits (fr : List (Nat × CanMsg × Bool)) : List (Nat × Nat) :=
  (fr.filter (fun x => x.2.2)).map (fun x => (x.1, 8 * x.2.1.data.length))

theorem dataBits_append (a b : List (Nat × CanMsg × Bool)) : dataBits (a ++ b) = dataBits a ++ dataBits b := by
  simp [dataBits]

theorem allFrames_append (a b : List (Nat × CanMsg × Bool)) : allFrames (a ++ b) = allFrames a ++ allFrames b := by
  simp [allFrames]

theorem lastTime_const (t : Nat) (steps : List Step) (h : ∀ st ∈ steps, st.time = t) :
    lastTime t steps = t := by
  induction steps with
  | nil => rfl
  | cons st rest ih =>
    rw [lastTime, h st List.mem_cons_self]
    exact ih (fun x hx => h x (List.mem_cons_of_mem _ hx))

structure TxLoopSpec (w : Nat) (s R : State) (F : List (Nat × CanMsg × Bool)) : Prop where
  now : R.now = s.now
  cfg : R.cfg = s.cfg
  addr : R.addr = s.addr
  standbyOk : StandbyOk R
  txlog : txEvents R.log = (allFrames F).reverse ++ txEvents s.log
  noStandby : s.rl.enabled = false → NoStandbySt s → NoStandbySt R
  run : ∃ steps, Valid w s.cfg.rlBitMax 64 s.rl s.now steps ∧ (∀ st ∈ steps, st.time = s.now) ∧
    R.rl = execAll w s.rl steps ∧ emissions steps = dataBits F
  fcs : ∀ x ∈ F, x.2.2 = false → ∃ st, makeFlowControl s.cfg s.addr st = some x.2.1

theorem txLoopSpec_refl (w : Nat) (s : State) (hsb : StandbyOk s) : TxLoopSpec w s s [] :=
  ⟨rfl, rfl, rfl, hsb, by simp [allFrames], fun _ h => h, ⟨[], trivial, by simp, rfl, rfl⟩, by simp⟩

theorem txLoopSpec_cons (w : Nat) (s s1 R : State) (m : CanMsg) (imm : Bool)
    (F' : List (Nat × CanMsg × Bool)) (hp : PassSpec s (s1, some m, imm))
    (hcont : TxLoopSpec w (s1.emit (.tx s1.now m)) R F') :
    TxLoopSpec w s R ((s.now, m, !(s.pendingFc && !s.cfg.listen)) :: F') := by
  have hnow : (s1.emit (.tx s1.now m)).now = s.now := hp.now
  have hcfg : (s1.emit (.tx s1.now m)).cfg = s.cfg := hp.cfg
  have hen : s1.rl.enabled = s.rl.enabled := by
    rcases hp.kind with ⟨_, h⟩ | ⟨_, _, _, _, _, _, _, h⟩ | ⟨_, _, _, _, h, _⟩ <;> simp at h <;> rw [h]
    simp
  refine ⟨hcont.now.trans hnow, hcont.cfg.trans hcfg, hcont.addr.trans hp.addr, hcont.standbyOk, ?_, ?_, ?_, ?_⟩
  · rw [hcont.txlog]
    have : txEvents (s1.emit (.tx s1.now m)).log = (s.now, m) :: txEvents s.log := by
      have h1 : s1.now = s.now := hp.now
      have h2 : txEvents s1.log = txEvents s.log := hp.txlog
      simp [emit, txEvents, h1, h2]
    rw [this]
    simp [allFrames]
  · intro hd hn
    apply hcont.noStandby
    · show s1.rl.enabled = false
      rw [hen]; exact hd
    · apply hp.noStandby _ hn
      rw [allowedBytes_disabled _ _ hd]; decide
  · obtain ⟨steps', v', t', e', em'⟩ := hcont.run
    rw [hnow, hcfg] at v'
    rw [hnow] at t'
    have hrl' : (s1.emit (.tx s1.now m)).rl = s1.rl := rfl
    rw [hrl'] at v' e'
    rcases hp.kind with ⟨h, _⟩ | ⟨_, _, hpf, hl, _, _, _, hrl⟩ | ⟨msg, hpl, hout, hadm, hrl, _⟩
    · simp at h
    · simp only [] at hrl
      rw [hrl] at v' e'
      refine ⟨steps', v', t', e', ?_⟩
      rw [em']
      simp [dataBits, hpf, hl]
    · simp only [] at hrl hout
      have : msg = m := by simpa using hout.symm
      subst this
      rw [hrl] at v' e'
      obtain ⟨len, a1, a2, a3, a4⟩ := hadm
      refine ⟨.emit s.now len msg.data.length :: steps', ⟨Nat.le_refl _, ⟨a1, a2, a4⟩, v'⟩, ?_, e', ?_⟩
      · intro st hst
        rcases List.mem_cons.mp hst with rfl | h
        · rfl
        · exact t' st h
      · have htag : (!(s.pendingFc && !s.cfg.listen)) = true := by
          rcases hpl with h | h <;> simp [h]
        simp [emissions, em', dataBits, htag]
  · intro x hx ht
    rcases List.mem_cons.mp hx with rfl | hx
    · simp only [] at ht
      rcases hp.kind with ⟨h, _⟩ | ⟨st, msg, _, _, _, hmk, hout, _⟩ | ⟨_, hpl, _⟩
      · simp at h
      · simp only [] at hout
        have : msg = m := by simpa using hout.symm
        subst this
        exact ⟨st, hmk⟩
      · rcases hpl with h | h <;> simp [h] at ht
    · have := hcont.fcs x hx ht
      rw [hcfg] at this
      have haddr : (s1.emit (.tx s1.now m)).addr = s.addr := hp.addr
      rw [haddr] at this
      exact this

theorem txLoop_spec (w : Nat) (f : Nat) (s : State) (n : Nat) (hsb : StandbyOk s) :
    TxLoopSpec w s (txLoop f s n).1 (txLoopFrames f s) := by
  induction f generalizing s n with
  | zero =>
    exact ⟨rfl, rfl, rfl, hsb, by simp [txLoop, txLoopFrames, allFrames], fun _ h => h,
      ⟨[], trivial, by simp, rfl, rfl⟩, by simp [txLoopFrames]⟩
  | succ f ih =>
    have hp := processTx_spec s hsb
    unfold txLoop txLoopFrames
    rcases hpt : s.processTx with ⟨s1, out, imm⟩
    rw [hpt] at hp
    simp only [] at hp ⊢
    have hns : s.rl.enabled = false → NoStandbySt s → NoStandbySt s1 := by
      intro hd hn
      apply hp.noStandby _ hn
      rw [allowedBytes_disabled _ _ hd]; decide
    rcases hexc : s1.exc.isSome with _ | _
    rotate_left
    · simp only [if_true]
      refine ⟨hp.now, hp.cfg, hp.addr, hp.standbyOk, by simpa [allFrames] using hp.txlog, hns, ?_, by simp⟩
      refine ⟨[], trivial, by simp, ?_, rfl⟩
      rcases hp.kind with ⟨_, h⟩ | ⟨_, _, _, _, _, _, _, h⟩ | ⟨_, _, _, _, _, h⟩
      · exact h
      · exact h
      · rw [h] at hexc; simp at hexc
    · simp only [Bool.false_eq_true, if_false]
      cases out with
      | none =>
        simp only []
        have himm : (if imm = true then (s1, n, true, false) else (s1, n, false, false)).1 = s1 := by
          split <;> rfl
        have : (if imm = true then (s1, n, true, false)
            else if (none : Option CanMsg).isSome = true then txLoop f s1 n else (s1, n, false, false)).1 = s1 := by
          split
          · rfl
          · simp
        rw [this]
        refine ⟨hp.now, hp.cfg, hp.addr, hp.standbyOk, by simpa [allFrames] using hp.txlog, hns, ?_, by simp⟩
        refine ⟨[], trivial, by simp, ?_, rfl⟩
        rcases hp.kind with ⟨_, h⟩ | ⟨_, _, _, _, _, _, h, _⟩ | ⟨_, _, h, _⟩
        · exact h
        · simp at h
        · simp at h
      | some m =>
        simp only [Option.isSome_some, if_true]
        have hsb1 : StandbyOk (s1.emit (.tx s1.now m)) := hp.standbyOk
        cases imm with
        | true =>
          simp only [if_true]
          exact txLoopSpec_cons w s s1 _ m true [] hp (txLoopSpec_refl w _ hsb1)
        | false =>
          simp only [Bool.false_eq_true, if_false]
          exact txLoopSpec_cons w s s1 _ m false _ hp (ih _ _ hsb1)

/-! ### `processLoop` -/

/-- frames handed to `txfn` during one `process()` call (see `txLoopFrames`) -/
def processLoopFrames : Nat → Bool → Bool → State → Stats → List (Nat × CanMsg × Bool)
  | 0, _, _, _, _ => []
  | f + 1, doRx, doTx, s, st =>
    let startWithTx := doTx && !s.txQueue.isEmpty && s.rxState = .idle && s.txState = .idle
    let r1 := if doRx && !startWithTx then s.rxLoop doTx st s.inbox else (s, st, false)
    let s1 : State := { r1.1 with rl := r1.1.rl.update r1.1.cfg.rlWindowNs r1.1.now }
    let r2 : State × Stats × Bool × Bool :=
      if doTx then
        ((txLoop s1.txFuel s1 r1.2.1.sent).1, { r1.2.1 with sent := (txLoop s1.txFuel s1 r1.2.1.sent).2.1 },
          (txLoop s1.txFuel s1 r1.2.1.sent).2.2.1, (txLoop s1.txFuel s1 r1.2.1.sent).2.2.2)
      else (s1, r1.2.1, false, false)
    (if doTx then txLoopFrames s1.txFuel s1 else []) ++
      (if r2.1.exc.isSome then [] else if r2.2.2.2 then [] else
       if startWithTx || r1.2.2 || r2.2.2.1 then processLoopFrames f doRx doTx r2.1 r2.2.1 else [])

theorem processLoop_succ (f : Nat) (doRx doTx : Bool) (s : State) (st : Stats) :
    processLoop (f + 1) doRx doTx s st =
    (let startWithTx := doTx && !s.txQueue.isEmpty && s.rxState = .idle && s.txState = .idle
    let r1 := if doRx && !startWithTx then s.rxLoop doTx st s.inbox else (s, st, false)
    let s1 : State := { r1.1 with rl := r1.1.rl.update r1.1.cfg.rlWindowNs r1.1.now }
    let r2 : State × Stats × Bool × Bool :=
      if doTx then
        ((txLoop s1.txFuel s1 r1.2.1.sent).1, { r1.2.1 with sent := (txLoop s1.txFuel s1 r1.2.1.sent).2.1 },
          (txLoop s1.txFuel s1 r1.2.1.sent).2.2.1, (txLoop s1.txFuel s1 r1.2.1.sent).2.2.2)
      else (s1, r1.2.1, false, false)
    if r2.1.exc.isSome then (r2.1, r2.2.1, false) else if r2.2.2.2 then (r2.1, r2.2.1, true) else
    if startWithTx || r1.2.2 || r2.2.2.1 then processLoop f doRx doTx r2.1 r2.2.1 else (r2.1, r2.2.1, false)) := by
  rfl

/-- one `process()` call (or a whole session) as a limiter run -/
structure LoopSpec (s R : State) (F : List (Nat × CanMsg × Bool)) : Prop where
  cfg : R.cfg = s.cfg
  addr : R.addr = s.addr
  now : s.now ≤ R.now
  standbyOk : StandbyOk R
  txlog : txEvents R.log = (allFrames F).reverse ++ txEvents s.log
  noStandby : s.rl.enabled = false → NoStandbySt s → NoStandbySt R
  run : ∃ steps, Valid s.cfg.rlWindowNs s.cfg.rlBitMax 64 s.rl s.now steps ∧
    lastTime s.now steps ≤ R.now ∧ R.rl = execAll s.cfg.rlWindowNs s.rl steps ∧
    emissions steps = dataBits F
  fcs : ∀ x ∈ F, x.2.2 = false → ∃ st, makeFlowControl s.cfg s.addr st = some x.2.1

theorem loopSpec_refl (s : State) (hsb : StandbyOk s) : LoopSpec s s [] :=
  ⟨rfl, rfl, Nat.le_refl _, hsb, by simp [allFrames], fun _ h => h,
    ⟨[], trivial, Nat.le_refl _, rfl, rfl⟩, by simp⟩

theorem LoopSpec.enabled {s R : State} {F : List (Nat × CanMsg × Bool)} (h : LoopSpec s R F) :
    R.rl.enabled = s.rl.enabled := by
  obtain ⟨steps, _, _, e, _⟩ := h.run
  rw [e, execAll_enabled]

/-- a step that leaves limiter, parked frame and tx log alone, followed by a limiter run -/
theorem loopSpec_of_rxKeep {s sa R : State} {F : List (Nat × CanMsg × Bool)} (h1 : RxKeep s sa)
    (h2 : LoopSpec sa R F) : LoopSpec s R F := by
  refine ⟨h2.cfg.trans h1.cfg, h2.addr.trans h1.addr, Nat.le_trans h1.now h2.now, h2.standbyOk,
    by rw [h2.txlog, h1.txlog], ?_, ?_, by rw [← h1.cfg, ← h1.addr]; exact h2.fcs⟩
  · intro hd hn
    apply h2.noStandby (by rw [h1.rl]; exact hd)
    unfold NoStandbySt at hn ⊢; rw [h1.txState]; exact hn
  · obtain ⟨steps, v, lt, e, em⟩ := h2.run
    rw [h1.cfg, h1.rl] at v e
    refine ⟨steps, valid_mono_t0 _ _ _ _ _ _ _ v h1.now, ?_, e, em⟩
    cases steps with
    | nil => exact Nat.le_trans h1.now h2.now
    | cons st rest => exact lt

theorem loopSpec_step {s sa sb R : State} {Fb Fc : List (Nat × CanMsg × Bool)} (h1 : RxKeep s sa)
    (h2 : TxLoopSpec s.cfg.rlWindowNs { sa with rl := sa.rl.update sa.cfg.rlWindowNs sa.now } sb Fb)
    (h3 : LoopSpec sb R Fc) : LoopSpec s R (Fb ++ Fc) := by
  have hcfg : sb.cfg = s.cfg := h2.cfg.trans h1.cfg
  have hnow : sb.now = sa.now := h2.now
  have hfcs : ∀ x ∈ Fb ++ Fc, x.2.2 = false → ∃ st, makeFlowControl s.cfg s.addr st = some x.2.1 := by
    intro x hx ht
    rcases List.mem_append.mp hx with hx | hx
    · have := h2.fcs x hx ht
      have e1 : ({ sa with rl := sa.rl.update sa.cfg.rlWindowNs sa.now } : State).cfg = s.cfg := h1.cfg
      have e2 : ({ sa with rl := sa.rl.update sa.cfg.rlWindowNs sa.now } : State).addr = s.addr := h1.addr
      rw [e1, e2] at this; exact this
    · have := h3.fcs x hx ht
      rw [hcfg, h2.addr.trans h1.addr] at this; exact this
  refine ⟨h3.cfg.trans hcfg, h3.addr.trans (h2.addr.trans h1.addr),
    Nat.le_trans h1.now (hnow ▸ h3.now), h3.standbyOk, ?_, ?_, ?_, hfcs⟩
  · rw [h3.txlog, h2.txlog]
    have : txEvents ({ sa with rl := sa.rl.update sa.cfg.rlWindowNs sa.now } : State).log = txEvents s.log :=
      h1.txlog
    rw [this, allFrames_append]; simp
  · intro hd hn
    apply h3.noStandby
    · obtain ⟨steps, _, _, e, _⟩ := h2.run
      rw [e, execAll_enabled]
      show (sa.rl.update sa.cfg.rlWindowNs sa.now).enabled = false
      rw [update_enabled, h1.rl]; exact hd
    · apply h2.noStandby
      · show (sa.rl.update sa.cfg.rlWindowNs sa.now).enabled = false
        rw [update_enabled, h1.rl]; exact hd
      · unfold NoStandbySt at hn ⊢
        show sa.txState ≠ _ ∧ sa.txState ≠ _
        rw [h1.txState]; exact hn
  · obtain ⟨stB, vB, tB, eB, emB⟩ := h2.run
    obtain ⟨stC, vC, ltC, eC, emC⟩ := h3.run
    have hrl1 : ({ sa with rl := sa.rl.update sa.cfg.rlWindowNs sa.now } : State).rl
        = s.rl.update s.cfg.rlWindowNs sa.now := by
      show sa.rl.update sa.cfg.rlWindowNs sa.now = _
      rw [h1.rl, h1.cfg]
    have hcfg1 : ({ sa with rl := sa.rl.update sa.cfg.rlWindowNs sa.now } : State).cfg = s.cfg := h1.cfg
    have hnow1 : ({ sa with rl := sa.rl.update sa.cfg.rlWindowNs sa.now } : State).now = sa.now := rfl
    rw [hrl1, hcfg1, hnow1] at vB
    rw [hnow1] at tB
    rw [hrl1] at eB
    rw [hcfg, eB, hnow] at vC
    rw [hcfg, eB] at eC
    rw [hnow] at ltC
    have hlt : lastTime sa.now stB = sa.now := lastTime_const _ _ tB
    refine ⟨.update sa.now :: (stB ++ stC), ⟨h1.now, trivial, ?_⟩, ?_, ?_, ?_⟩
    · exact (valid_append _ _ _ _ _ _ _).mpr ⟨vB, by
        show Valid _ _ _ _ (lastTime sa.now stB) stC
        rw [hlt]; exact vC⟩
    · show lastTime sa.now (stB ++ stC) ≤ R.now
      rw [lastTime_append, hlt]; exact ltC
    · show R.rl = execAll s.cfg.rlWindowNs (s.rl.update s.cfg.rlWindowNs sa.now) (stB ++ stC)
      rw [execAll_append]; exact eC
    · show emissions (stB ++ stC) = _
      rw [emissions_append, emB, emC, dataBits_append]

theorem processLoop_spec (f : Nat) (doRx doTx : Bool) (s : State) (st : Stats) (hsb : StandbyOk s) :
    LoopSpec s (processLoop f doRx doTx s st).1 (processLoopFrames f doRx doTx s st) := by
  induction f generalizing s st with
  | zero => exact loopSpec_refl s hsb
  | succ f ih =>
    rw [processLoop_succ]
    unfold processLoopFrames
    simp only []
    generalize (doTx && !s.txQueue.isEmpty && decide (s.rxState = .idle) && decide (s.txState = .idle)) = swt
    -- rx phase
    have h1 : RxKeep s (if (doRx && !swt) = true then s.rxLoop doTx st s.inbox else (s, st, false)).1 := by
      split
      · exact rxKeep_rxLoop _ _ _ _
      · exact rxKeep_refl s
    generalize (if (doRx && !swt) = true then s.rxLoop doTx st s.inbox else (s, st, false)) = r1 at h1 ⊢
    obtain ⟨sa, sta, rxRun⟩ := r1
    simp only [] at h1 ⊢
    have hsba : StandbyOk ({ sa with rl := sa.rl.update sa.cfg.rlWindowNs sa.now } : State) := by
      intro m hm; exact hsb m (h1.standby ▸ hm)
    cases doTx with
    | false =>
      simp only [Bool.false_eq_true, if_false, List.nil_append]
      have h2 : TxLoopSpec s.cfg.rlWindowNs { sa with rl := sa.rl.update sa.cfg.rlWindowNs sa.now }
          { sa with rl := sa.rl.update sa.cfg.rlWindowNs sa.now } [] := txLoopSpec_refl _ _ hsba
      split
      · exact loopSpec_step h1 h2 (loopSpec_refl _ hsba)
      · split
        · exact loopSpec_step h1 h2 (ih _ _ hsba)
        · exact loopSpec_step h1 h2 (loopSpec_refl _ hsba)
    | true =>
      simp only [if_true]
      have h2 := txLoop_spec s.cfg.rlWindowNs
        ({ sa with rl := sa.rl.update sa.cfg.rlWindowNs sa.now } : State).txFuel
        { sa with rl := sa.rl.update sa.cfg.rlWindowNs sa.now } sta.sent hsba
      have hsbb := h2.standbyOk
      split
      · simpa using loopSpec_step h1 h2 (loopSpec_refl _ hsbb)
      · split
        · simpa using loopSpec_step h1 h2 (loopSpec_refl _ hsbb)
        · split
          · exact loopSpec_step h1 h2 (ih _ _ hsbb)
          · simpa using loopSpec_step h1 h2 (loopSpec_refl _ hsbb)

/-! ### sessions: any sequence of API calls between two `reset()` -/

theorem rxKeep_send (s : State) (a : SendArgs) : RxKeep s (s.send a).1 := by
  unfold send
  simp only []
  repeat' split
  all_goals exact ⟨rfl, rfl, rfl, rfl, rfl, Nat.le_refl _, rfl⟩

theorem rxKeep_recv (s : State) : RxKeep s s.recv.1 := by
  unfold recv
  split <;> exact ⟨rfl, rfl, rfl, rfl, rfl, Nat.le_refl _, rfl⟩

theorem rxKeep_advance (s : State) (dt : Nat) : RxKeep s (s.advance dt) :=
  ⟨rfl, rfl, rfl, rfl, rfl, Nat.le_add_right _ _, rfl⟩

theorem rxKeep_pushFrame (s : State) (dt : Nat) (m : CanMsg) : RxKeep s (s.pushFrame dt m) :=
  ⟨rfl, rfl, rfl, rfl, rfl, Nat.le_refl _, rfl⟩

theorem lastTime_le_of_le (t t' u : Nat) (steps : List Step) (h : lastTime t steps ≤ u) (h' : t' ≤ u)
    (hne : steps = [] → t' ≤ u) : lastTime t' steps ≤ u := by
  cases steps with
  | nil => exact h'
  | cons st rest => exact h

theorem loopSpec_trans {a b c : State} {F1 F2 : List (Nat × CanMsg × Bool)} (h1 : LoopSpec a b F1)
    (h2 : LoopSpec b c F2) : LoopSpec a c (F1 ++ F2) := by
  have hfcs : ∀ x ∈ F1 ++ F2, x.2.2 = false → ∃ st, makeFlowControl a.cfg a.addr st = some x.2.1 := by
    intro x hx ht
    rcases List.mem_append.mp hx with hx | hx
    · exact h1.fcs x hx ht
    · have := h2.fcs x hx ht
      rw [h1.cfg, h1.addr] at this; exact this
  refine ⟨h2.cfg.trans h1.cfg, h2.addr.trans h1.addr, Nat.le_trans h1.now h2.now, h2.standbyOk, ?_, ?_, ?_,
    hfcs⟩
  · rw [h2.txlog, h1.txlog, allFrames_append]; simp
  · intro hd hn
    exact h2.noStandby (by rw [h1.enabled]; exact hd) (h1.noStandby hd hn)
  · obtain ⟨st1, v1, lt1, e1, em1⟩ := h1.run
    obtain ⟨st2, v2, lt2, e2, em2⟩ := h2.run
    rw [h1.cfg, e1] at v2 e2
    refine ⟨st1 ++ st2, ?_, ?_, ?_, ?_⟩
    · exact (valid_append _ _ _ _ _ _ _).mpr ⟨v1, valid_mono_t0 _ _ _ _ _ _ _ v2 lt1⟩
    · rw [lastTime_append]
      cases st2 with
      | nil => exact Nat.le_trans lt1 h2.now
      | cons x rest => exact lt2
    · rw [execAll_append]; exact e2
    · rw [emissions_append, em1, em2, dataBits_append]

/-- The states reachable from a freshly configured layer by `process()`, `send()`, `recv()`, clock
    advance and bus input (everything except `reset()`), together with the frames handed to `txfn`
    so far (oldest first, tagged data / flow-control). -/
inductive Session (c : Cfg) (ad : Addr) : State → List (Nat × CanMsg × Bool) → Prop
  | init : Session c ad (State.init c ad) []
  | send {s F} (a : SendArgs) : Session c ad s F → Session c ad (s.send a).1 F
  | recv {s F} : Session c ad s F → Session c ad s.recv.1 F
  | advance {s F} (dt : Nat) : Session c ad s F → Session c ad (s.advance dt) F
  | push {s F} (dt : Nat) (m : CanMsg) : Session c ad s F → Session c ad (s.pushFrame dt m) F
  | process {s F} (doRx doTx : Bool) : Session c ad s F →
      Session c ad (s.process doRx doTx).1 (F ++ processLoopFrames s.processFuel doRx doTx s {})

theorem loopSpec_then_rxKeep {a b c : State} {F : List (Nat × CanMsg × Bool)} (h1 : LoopSpec a b F)
    (h2 : RxKeep b c) : LoopSpec a c F := by
  have hsb : StandbyOk c := by
    intro m hm; exact h1.standbyOk m (h2.standby ▸ hm)
  simpa using loopSpec_trans h1 (loopSpec_of_rxKeep h2 (loopSpec_refl c hsb))

theorem session_loopSpec {c : Cfg} {ad : Addr} {s : State} {F : List (Nat × CanMsg × Bool)}
    (h : Session c ad s F) : LoopSpec (State.init c ad) s F := by
  induction h with
  | init => exact loopSpec_refl _ (by intro m hm; simp [State.init] at hm)
  | send a _ ih => exact loopSpec_then_rxKeep ih (rxKeep_send _ a)
  | recv _ ih => exact loopSpec_then_rxKeep ih (rxKeep_recv _)
  | advance dt _ ih => exact loopSpec_then_rxKeep ih (rxKeep_advance _ dt)
  | push dt m _ ih => exact loopSpec_then_rxKeep ih (rxKeep_pushFrame _ dt m)
  | process doRx doTx _ ih => exact loopSpec_trans ih (processLoop_spec _ doRx doTx _ _ ih.standbyOk)
/-! ## Part E — progress and delay-only -/

theorem txPrefix_len_le (h : Half) : h.txPrefix.length ≤ 1 := by
  unfold Half.txPrefix; split <;> simp

theorem valid_txDl (c : Cfg) (h : c.valid = true) : 8 ≤ c.txDl ∧ c.txDl ≤ 64 ∧ c.txDl * 8 ≤ c.rlBitMax ∧
    validTxDl c.txDl = true := by
  unfold Cfg.valid at h
  simp only [Bool.and_eq_true, decide_eq_true_eq] at h
  obtain ⟨⟨⟨⟨⟨h1, _⟩, _⟩, _⟩, _⟩, h6⟩ := h
  refine ⟨?_, ?_, h6, h1⟩ <;> (unfold validTxDl at h1; simp at h1; omega)

theorem nearestFd_le_txDl {n f d : Nat} (h : nearestFd n = some f) (hd : validTxDl d = true) (hn : n ≤ d) :
    f ≤ d := by
  unfold nearestFd at h
  unfold validTxDl at hd
  simp at hd
  repeat' split at h
  all_goals first | contradiction | (injection h with h; omega)

theorem padLen_le_txDl {c : Cfg} {n t : Nat} (hv : c.valid = true) (hn : n ≤ c.txDl)
    (h : padLen c n = some t) : t ≤ c.txDl := by
  have hv' := valid_txDl c hv
  have hm : ∀ m, c.txMinLen = some m → m ≤ c.txDl := by
    intro m hm
    unfold Cfg.valid at hv
    simp only [Bool.and_eq_true, decide_eq_true_eq, hm] at hv
    exact hv.1.2.2
  unfold padLen at h
  split at h
  · rename_i h8
    split at h
    · split at h <;> (injection h with h; omega)
    · rename_i m hmm
      have := hm m hmm
      injection h with h; omega
  · split at h
    · split at h
      · contradiction
      · rename_i f hf
        have hf' := nearestFd_le_txDl hf hv'.2.2.2 hn
        split at h
        · injection h with h; omega
        · rename_i m hmm
          have := hm m hmm
          injection h with h; omega
    · injection h with h; omega

theorem makeTxMsg_le_txDl {c : Cfg} {a : Addr} {i : Nat} {d : Bytes} {msg : CanMsg} (hv : c.valid = true)
    (hd : d.length ≤ c.txDl) (h : makeTxMsg c a i d = some msg) : msg.data.length ≤ c.txDl := by
  unfold makeTxMsg at h
  split at h
  · contradiction
  · rename_i pd hpd
    split at h
    · contradiction
    · injection h with h; subst h
      simp only
      unfold pad at hpd
      split at hpd
      · contradiction
      · rename_i t ht
        injection hpd with hpd; subst hpd
        have := padLen_le_txDl hv hd ht
        simp; omega

/-- with a validated configuration a built frame fits the configured `tx_data_length` -/
def BuiltLe (d : Nat) : Built → Prop
  | .fail _ => True
  | .sf _ len msg => len ≤ d ∧ msg.data.length ≤ d
  | .ff _ len msg => len ≤ d ∧ msg.data.length ≤ d

theorem buildSf_le (s : State) (r : Req) (b : Bool) (hv : s.cfg.valid = true)
    (hfit : r.size + (if b then 1 else 2) + s.txPrefixLen ≤ s.cfg.txDl) :
    BuiltLe s.cfg.txDl (buildSf s r b) := by
  have hs := same_consumeActive s r r.size true
  have hl := consumeActive_len s r r.size true
  unfold buildSf
  rcases hca : s.consumeActive r r.size true with ⟨s1, r1, _ | payload⟩ <;> rw [hca] at hs hl <;>
    simp only [] at hs hl ⊢
  · trivial
  · split
    · trivial
    · rename_i msg hm
      have hpl := hl payload rfl
      have hlen : (s1.addr.tx.txPrefix ++ (if b = true then [u8 payload.length] else [0, u8 payload.length])
          ++ payload).length ≤ s.cfg.txDl := by
        simp only [List.length_append]
        rw [hs.addr]
        unfold txPrefixLen at hfit
        split <;> simp_all <;> omega
      rw [hs.cfg] at hm
      exact ⟨hlen, makeTxMsg_le_txDl hv hlen hm⟩

theorem buildFf_le (s : State) (r : Req) (hv : s.cfg.valid = true) :
    BuiltLe s.cfg.txDl (buildFf s r s.txPrefixLen) := by
  have hv' := valid_txDl s.cfg hv
  have hp := txPrefix_len_le s.addr.tx
  unfold buildFf
  simp only []
  have hs := same_consumeActive s r
    (if r.size ≤ 0xFFF then s.cfg.txDl - 2 - s.txPrefixLen else s.cfg.txDl - 6 - s.txPrefixLen) true
  have hl := consumeActive_len s r
    (if r.size ≤ 0xFFF then s.cfg.txDl - 2 - s.txPrefixLen else s.cfg.txDl - 6 - s.txPrefixLen) true
  rcases hca : s.consumeActive r (if r.size ≤ 0xFFF then s.cfg.txDl - 2 - s.txPrefixLen
      else s.cfg.txDl - 6 - s.txPrefixLen) true
    with ⟨s1, r1, _ | payload⟩ <;> rw [hca] at hs hl <;> simp only [] at hs hl ⊢
  · trivial
  · split
    · trivial
    · rename_i msg hm
      have hpl := hl payload rfl
      have hlen : (s1.addr.tx.txPrefix ++ (if r.size ≤ 0xFFF then [u8 (0x10 + r.size / 256 % 16), u8 (r.size % 256)]
          else [0x10, 0x00, u8 (r.size / 16777216 % 256), u8 (r.size / 65536 % 256), u8 (r.size / 256 % 256),
            u8 (r.size % 256)]) ++ payload).length ≤ s.cfg.txDl := by
        simp only [List.length_append]
        rw [hs.addr]
        unfold txPrefixLen at hpl
        split <;> simp_all <;> omega
      rw [hs.cfg] at hm
      exact ⟨hlen, makeTxMsg_le_txDl hv hlen hm⟩

theorem builtLe_ite (d : Nat) (c : Prop) [Decidable c] (x y : Built) (hx : c → BuiltLe d x)
    (hy : BuiltLe d y) : BuiltLe d (if c then x else y) := by
  split
  · exact hx ‹_›
  · exact hy

theorem buildTx_le (s : State) (r : Req) (hv : s.cfg.valid = true) :
    BuiltLe s.cfg.txDl (buildTx s r) := by
  unfold buildTx
  exact builtLe_ite _ _ _ _ (fun h => buildSf_le s r _ hv h)
    (buildFf_le { s with txFrameLen := r.size } r hv)

/-- once the limiter allows a full frame (`allowed ≥ tx_data_length`) a new transmission starts
    exactly as without limiter -/
theorem startTx_unthrottled (s : State) (r : Req) (a : Nat) (hv : s.cfg.valid = true)
    (ha : s.cfg.txDl ≤ a) : s.startTx r a = s.startTx r noLimit := by
  have hv' := valid_txDl s.cfg hv
  have hb := buildTx_le s r hv
  rw [startTx_eq, startTx_eq]
  rcases hbt : buildTx s r with s' | ⟨s1, len, msg⟩ | ⟨s1, len, msg⟩ <;> rw [hbt] at hb <;>
    simp only [dispatch, BuiltLe, noLimit] at hb ⊢
  · have h1 : ¬ len > a := by omega
    have h2 : ¬ len > 4294967295 := by omega
    simp only [h1, h2, if_false]
  · have h1 : len ≤ a := by omega
    have h2 : len ≤ 4294967295 := by omega
    simp only [h1, h2, if_true]

/-- the limiter only chooses between sending and parking the frame that `startTx` builds: either
    the pass is exactly the unlimited one, or the very frame the unlimited pass would have sent
    is parked and nothing is sent -/
theorem startTx_delay_only (s : State) (r : Req) (a : Nat) :
    s.startTx r a = s.startTx r noLimit ∨
    ∃ msg, (s.startTx r noLimit).2 = some msg ∧ (s.startTx r a).2 = none ∧
      (s.startTx r a).1.standby = some msg ∧
      ((s.startTx r a).1.txState = .sfStandby ∨ (s.startTx r a).1.txState = .ffStandby) := by
  have hb := buildTx_spec s r
  rw [startTx_eq, startTx_eq]
  rcases hbt : buildTx s r with s' | ⟨s1, len, msg⟩ | ⟨s1, len, msg⟩ <;> rw [hbt] at hb <;>
    simp only [dispatch, BuiltOk, noLimit] at hb ⊢
  · exact Or.inl trivial
  · have h2 : ¬ len > 4294967295 := by omega
    by_cases h1 : len > a
    · simp only [h1, h2, if_true, if_false]
      exact Or.inr ⟨msg, by simp⟩
    · simp only [h1, h2, if_false]
      exact Or.inl trivial
  · have h2 : len ≤ 4294967295 := by omega
    by_cases h1 : len ≤ a
    · simp only [h1, h2, if_true]
      exact Or.inl trivial
    · simp only [h1, h2, if_true, if_false]
      exact Or.inr ⟨msg, by simp⟩

/-- a frame parked by `startTx` fits the configured `tx_data_length` -/
theorem startTx_parked_le (s : State) (r : Req) (a : Nat) (hv : s.cfg.valid = true)
    (hn : NoStandbySt s)
    (hst : (s.startTx r a).1.txState = .sfStandby ∨ (s.startTx r a).1.txState = .ffStandby) :
    ∃ msg, (s.startTx r a).1.standby = some msg ∧ msg.data.length ≤ s.cfg.txDl := by
  have hb := buildTx_spec s r
  have hl := buildTx_le s r hv
  unfold NoStandbySt at hn
  rw [startTx_eq] at hst ⊢
  rcases hbt : buildTx s r with s' | ⟨s1, len, msg⟩ | ⟨s1, len, msg⟩ <;> rw [hbt] at hb hl hst <;>
    simp only [dispatch, BuiltOk, BuiltLe] at hb hl hst ⊢
  · rcases hb.2.2 with h | h <;> rw [h] at hst <;> simp_all
  · split at hst
    · rename_i h1
      simp only [h1, if_true]
      exact ⟨msg, rfl, hl.2⟩
    · simp at hst
  · split at hst
    · simp [startRxFcTimer] at hst
    · rename_i h1
      simp only [h1, if_false]
      exact ⟨msg, rfl, hl.2⟩

/-- a due Consecutive Frame is never withheld once the limiter allows a full frame -/
theorem not_cfHeld_of_le (s : State) (a : Nat) (ha : s.cfg.txDl ≤ a) : ¬ cfHeld s a := by
  rintro ⟨rbs, r, _, _, _, h⟩
  omega

@[simp] theorem stopSending_exc (s : State) (b : Bool) : (s.stopSending b).exc = s.exc := by
  unfold stopSending; split <;> rfl
@[simp] theorem stopSending_rl (s : State) (b : Bool) : (s.stopSending b).rl = s.rl :=
  (same_stopSending s b).rl
@[simp] theorem stopSending_now (s : State) (b : Bool) : (s.stopSending b).now = s.now :=
  (same_stopSending s b).now

/-- A parked frame is released, unchanged, by the first `processTx` pass in which the limiter
    allows its length (the pass must reach the state machine: no pending / received Flow Control,
    no N_Bs timeout, no earlier exception). -/
theorem standby_released (s : State) (msg : CanMsg)
    (hst : s.txState = .sfStandby ∨ s.txState = .ffStandby) (hsb : s.standby = some msg)
    (hfit : msg.data.length ≤ s.rl.allowedBytes s.cfg.rlBitMax)
    (hpf : s.pendingFc = false) (hfc : s.lastFc = none) (hto : s.timerFc.timedOut s.now = false)
    (hact : s.active.isSome = true) (hexc : s.exc = none) :
    s.processTx.2.1 = some msg ∧ s.processTx.1.standby = none ∧ NoStandbySt s.processTx.1 ∧
    s.processTx.1.rl = s.rl.inform s.now msg.data.length := by
  have e0 : ({ s with lastFc := none } : State) = s := by
    cases s; simp_all
  have e1 : txPend s = (s, none) := by simp [txPend, hpf]
  have e2 : txFcIn s = (s, false) := by simp [txFcIn, hfc, e0]
  have e3 : txGuard s = s := by simp [txGuard, hto]
  have e4 : txDone s = s := by simp [txDone, hsb]
  have hact' : s.active.isNone = false := by
    cases h : s.active <;> simp_all
  rw [processTx_eq, e1]
  simp only [e2, e3, e4, hact', Bool.and_false, Bool.false_eq_true, if_false]
  rcases hst with h | h
  · simp [txFsm, txAccount, h, hsb, hfit, hexc, NoStandbySt]
  · simp [txFsm, txAccount, h, hsb, hfit, hexc, NoStandbySt, startRxFcTimer]

/-- after an idle period longer than the window the limiter allows a full frame again -/
theorem allowed_after_expiry (l : Limiter) (c : Cfg) (now : Nat) (hen : l.enabled = true)
    (hinv : LimInv l) (hv : c.valid = true) (h : ∀ e ∈ l.slots, now - e.1 > c.rlWindowNs) :
    c.txDl ≤ (l.update c.rlWindowNs now).allowedBytes c.rlBitMax := by
  have hu := update_all_expired l c.rlWindowNs now hen hinv h
  have hv' := valid_txDl c hv
  rw [allowedBytes_enabled _ _ (by simp [hen]), hu.2]
  omega

theorem le_getLast_of_sorted (sl : List (Nat × Nat)) (z : Nat × Nat)
    (hs : sl.Pairwise (fun a b => a.1 ≤ b.1)) (hz : sl.getLast? = some z) : ∀ e ∈ sl, e.1 ≤ z.1 := by
  induction sl with
  | nil => simp
  | cons x rest ih =>
    intro e he
    cases rest with
    | nil =>
      simp at hz he; subst hz; subst he; exact Nat.le_refl _
    | cons y rest' =>
      have hz' : (y :: rest').getLast? = some z := by simpa [List.getLast?_cons_cons] using hz
      rcases List.mem_cons.mp he with rfl | he
      · exact List.rel_of_pairwise_cons hs (List.mem_of_getLast? hz')
      · exact ih (List.Pairwise.of_cons hs) hz' e he

/-- it is enough that the newest slot is older than the window -/
theorem all_expired_of_last (l : Limiter) (w now : Nat) (hinv : LimInv l)
    (h : ∀ z, l.slots.getLast? = some z → z.1 + w < now) : ∀ e ∈ l.slots, now - e.1 > w := by
  intro e he
  cases hz : l.slots.getLast? with
  | none => simp [List.getLast?_eq_none_iff] at hz; rw [hz] at he; simp at he
  | some z =>
    have := le_getLast_of_sorted l.slots z hinv.sorted hz e he
    have := h z hz
    omega
end Isotp.C15
