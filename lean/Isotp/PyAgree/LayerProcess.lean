import Isotp.PyAgree.Exec2Bridge
import Isotp.PyAgree.EvalLemmas
import Isotp.Process
/-!
  `TransportLayerLogic.process(rx_timeout, do_rx, do_tx)` (isotp/protocol.py): the rx/tx alternation loop - three nested `while`s with
  `break`s - interpreted in the SECOND (fuelled) semantics `run2` of `Isotp/Py/Exec2.lean`, against the model `State.process`
  (`Isotp/Process.lean`), RELATIVE TO ITS CALLEES (the style of `ResetCallees` in LayerQueues.lean).

  The callees are abstract: `ProcessCallees M R msgPV` says, one field per callee, that the `Meths` entry computes the MODEL function seen
  through a representation relation `R : Env → State → Prop` ("`env` shows `s`").  What the text of `process` itself reads is explicit:
  `self.rx_state` / `self.tx_state` and the enum constants (`Reads`), the emptiness of `self.tx_queue`, the locals (`Loc`).

  Main results
  * `tx_loop_agrees`    : the inner tx loop  = `State.txLoop`   (runs on which the model neither runs out of fuel nor raises);
  * `tx_loop_raises`    : ... and when `_process_tx` raises, the loop propagates the exception (the model stops with `exc = some e`);
  * `rx_loop_agrees`    : the inner rx loop  = `State.rxLoop`   (induction on the inbox; the two `break`s);
  * `process_loop_agrees` / `process_agrees` : the outer loop / the whole function = `State.processLoop` / `State.process`;
  * `process_raises`    : a run of the model that ends with `exc = some e` is a run of the source that raises `e`.
-/
namespace Isotp.PyAgree
open Isotp Isotp.Py

namespace Proc

/-! ## 0. infrastructure -/

theorem set_get (env : Env) (k : String) (v : PV) (k' : String) :
    (env.set k v) k' = if k' = k then some v else env k' := rfl

/-- the names the interpreter treats as builtins; every other call goes to `Meths` -/
def builtinNames : List String :=
  ["len", "int", "bool", "min", "max", "bytes", "isinstance_int", "isinstance_bool", "isinstance_float", "isinstance_int_float"]

theorem evalBuiltin_none (fn : String) (args : List PV) (h : fn ∉ builtinNames) : evalBuiltin fn args = none := by
  simp only [builtinNames, List.mem_cons, List.not_mem_nil, or_false, not_or] at h
  unfold evalBuiltin; split <;> simp_all

/-- a call statement without arguments -/
theorem proc0 (M : Meths) (env env' : Env) (fn : String) (hb : fn ∉ builtinNames) (hp : M.proc fn [] env = .ok env') :
    execStmt M env (.expr (.call fn .nil)) = .ok (.next env') := by
  simp [execStmt, evalArgs, evalBuiltin_none fn _ hb, hp]

/-- a call statement with one argument -/
theorem proc1 (M : Meths) (env env' : Env) (fn : String) (a : PExpr) (v : PV) (hb : fn ∉ builtinNames)
    (ha : eval M env a = .ok v) (hp : M.proc fn [v] env = .ok env') :
    execStmt M env (.expr (.call fn (.cons a .nil))) = .ok (.next env') := by
  simp [execStmt, evalArgs, ha, evalBuiltin_none fn _ hb, hp]

/-- a call statement without arguments that raises -/
theorem proc0_err (M : Meths) (env : Env) (fn : String) (er : PErr) (hb : fn ∉ builtinNames) (hp : M.proc fn [] env = .error er) :
    execStmt M env (.expr (.call fn .nil)) = .error er := by
  simp [execStmt, evalArgs, evalBuiltin_none fn _ hb, hp]

/-- a call without arguments in expression position -/
theorem fn0 (M : Meths) (env : Env) (fn : String) (r : PV) (hb : fn ∉ builtinNames) (hp : M.fn fn [] env = .ok r) :
    eval M env (.call fn .nil) = .ok r := by
  simp [eval, evalArgs, evalBuiltin_none fn _ hb, hp]

/-- a call with one argument in expression position -/
theorem fn1 (M : Meths) (env : Env) (fn : String) (a : PExpr) (v r : PV) (hb : fn ∉ builtinNames)
    (ha : eval M env a = .ok v) (hp : M.fn fn [v] env = .ok r) :
    eval M env (.call fn (.cons a .nil)) = .ok r := by
  simp [eval, evalArgs, ha, evalBuiltin_none fn _ hb, hp]

theorem eval_var (M : Meths) (env : Env) (k : String) (v : PV) (h : env k = some v) : eval M env (.var k) = .ok v := by
  simp [eval, h]

/-! ### stepping through a block in the fuelled semantics -/

/-- a simple statement that falls through -/
theorem b_next (n : Nat) (M : Meths) (env env1 : Env) (s : PStmt) (rest : PBlock) (hs : isSimple s = true)
    (h : execStmt M env s = .ok (.next env1)) :
    exec2B (n + 2) M env (.cons s rest) = exec2B (n + 1) M env1 rest := by
  rw [exec2B_cons, exec2S_simple _ _ _ _ hs]
  unfold simple2
  rw [h]
  rfl

/-- a simple statement that raises a builtin exception: the block raises it, in the environment of the statement -/
theorem b_raise (n : Nat) (M : Meths) (env : Env) (s : PStmt) (rest : PBlock) (e : PyExc) (hs : isSimple s = true)
    (h : execStmt M env s = .error (.exc e)) :
    exec2B (n + 2) M env (.cons s rest) = .ok (.raised e.name env) := by
  rw [exec2B_cons, exec2S_simple _ _ _ _ hs]
  unfold simple2
  rw [h]
  rfl

theorem b_assign (n : Nat) (M : Meths) (env : Env) (t : String) (e : PExpr) (v : PV) (rest : PBlock)
    (he : eval M env e = .ok v) :
    exec2B (n + 2) M env (.cons (.assign t e) rest) = exec2B (n + 1) M (env.set t v) rest :=
  b_next n M env _ _ rest rfl (by simp [execStmt, he])

theorem b_ite_true (n : Nat) (M : Meths) (env : Env) (c : PExpr) (t e rest : PBlock) (v : PV)
    (hc : eval M env c = .ok v) (ht : truthy v = .ok true) :
    exec2B (n + 2) M env (.cons (.ite c t e) rest) =
      (match exec2B n M env t with
       | .ok (.next env1) => exec2B (n + 1) M env1 rest
       | r => r) := by
  rw [exec2B_cons, exec2S_ite, hc]
  simp only [ht, if_true]
  cases exec2B n M env t with
  | error er => rfl
  | ok o => cases o <;> rfl

theorem b_ite_false (n : Nat) (M : Meths) (env : Env) (c : PExpr) (t e rest : PBlock) (v : PV)
    (hc : eval M env c = .ok v) (ht : truthy v = .ok false) :
    exec2B (n + 2) M env (.cons (.ite c t e) rest) =
      (match exec2B n M env e with
       | .ok (.next env1) => exec2B (n + 1) M env1 rest
       | r => r) := by
  rw [exec2B_cons, exec2S_ite, hc]
  simp only [ht, Bool.false_eq_true, if_false]
  cases exec2B n M env e with
  | error er => rfl
  | ok o => cases o <;> rfl

/-- an `if` without `else` whose test is false -/
theorem b_ite_skip (n : Nat) (M : Meths) (env : Env) (c : PExpr) (t rest : PBlock) (v : PV)
    (hc : eval M env c = .ok v) (ht : truthy v = .ok false) :
    exec2B (n + 3) M env (.cons (.ite c t .nil) rest) = exec2B (n + 2) M env rest := by
  rw [b_ite_false _ _ _ _ _ _ _ _ hc ht, exec2B_nil]

theorem b_break (n : Nat) (M : Meths) (env : Env) (rest : PBlock) :
    exec2B (n + 2) M env (.cons .break_ rest) = .ok (.brk env) := by
  rw [exec2B_cons, exec2S_break]

theorem w_false (n : Nat) (M : Meths) (env : Env) (c : PExpr) (body : PBlock) (v : PV)
    (hc : eval M env c = .ok v) (ht : truthy v = .ok false) :
    exec2S (n + 1) M env (.while_ c body) = .ok (.next env) := by
  rw [exec2S_while, hc]
  simp only [ht]

theorem w_true (n : Nat) (M : Meths) (env : Env) (c : PExpr) (body : PBlock) (v : PV)
    (hc : eval M env c = .ok v) (ht : truthy v = .ok true) :
    exec2S (n + 1) M env (.while_ c body) =
      (match exec2B n M env body with
       | .ok (.next env1) => exec2S n M env1 (.while_ c body)
       | .ok (.brk env1) => .ok (.next env1)
       | r => r) := by
  rw [exec2S_while, hc]
  simp only [ht]
  cases exec2B n M env body with
  | error er => rfl
  | ok o => cases o <;> rfl

end Proc
open Proc

/-! ## 1. what the environment shows -/

/-- the members of `TransportLayerLogic.RxState` / `TxState` (`enum.Enum` classes: a member is equal to itself only) -/
def pRxStPV : RxSt → PV
  | .idle => .sc (.enum "RxState" "IDLE") | .waitCf => .sc (.enum "RxState" "WAIT_CF")
def pTxStPV : TxSt → PV
  | .idle => .sc (.enum "TxState" "IDLE") | .waitFc => .sc (.enum "TxState" "WAIT_FC") | .transmitCf => .sc (.enum "TxState" "TRANSMIT_CF")
  | .sfStandby => .sc (.enum "TxState" "TRANSMIT_SF_STANDBY") | .ffStandby => .sc (.enum "TxState" "TRANSMIT_FF_STANDBY")

/-- the value `ProcessStats(received=, received_processed=, sent=, frame_received=)`: the four counters -/
def encodeStats (st : Stats) : PV :=
  .list [.py (.int st.received), .py (.int st.processed), .py (.int st.sent), .py (.int st.frames)]

theorem encodeStats_injective (a b : Stats) (h : encodeStats a = encodeStats b) : a = b := by
  cases a; cases b
  simp only [encodeStats, PV.list.injEq, List.cons.injEq, Sc.py.injEq, PyVal.int.injEq, Int.natCast_inj, and_true] at h
  obtain ⟨h1, h2, h3, h4⟩ := h
  subst h1 h2 h3 h4
  rfl

/-- `Optional[CanMessage]` -/
def optMsgPV (msgPV : CanMsg → PV) : Option CanMsg → PV
  | none => pnone
  | some m => msgPV m

/-- what the text of `process` reads of the object (apart from its calls): the two FSM states and the enum / logging constants -/
structure Reads (env : Env) (s : State) : Prop where
  rxState : env "self.rx_state" = some (pRxStPV s.rxState)
  txState : env "self.tx_state" = some (pTxStPV s.txState)
  rxIdle : env "self.RxState.IDLE" = some (pRxStPV .idle)
  txIdle : env "self.TxState.IDLE" = some (pTxStPV .idle)
  txCf : env "self.TxState.TRANSMIT_CF" = some (pTxStPV .transmitCf)
  txSf : env "self.TxState.TRANSMIT_SF_STANDBY" = some (pTxStPV .sfStandby)
  txFf : env "self.TxState.TRANSMIT_FF_STANDBY" = some (pTxStPV .ffStandby)
  debug : env "logging.DEBUG" = some (pint 10)

/-- the parameters and the locals that live across a call: every callee must leave them alone (except the one it binds) -/
def procLocals : List String :=
  ["do_rx", "do_tx", "rx_timeout", "run_process", "msg_received", "msg_received_processed", "msg_sent", "nb_frame_received",
   "first_loop", "msg", "tx_result.immediate_rx_required"]

/-- the names `process` assigns itself (locals, and the two `last_*_state` attributes, which nothing in the model reads) -/
def procWrites : List String :=
  ["run_process", "msg_received", "msg_received_processed", "msg_sent", "nb_frame_received", "msg", "start_with_tx", "first_loop",
   "for_me", "self.last_tx_state", "self.last_rx_state"]

/-- `env'` has the locals of `env`, except those in `ex` -/
def Kept (ex : List String) (env env' : Env) : Prop := ∀ k, k ∈ procLocals → k ∉ ex → env' k = env k

/-- The callees of `process`, given by the MODEL functions seen through the environment: `R env s` reads "`env` shows `s`".
    A `CanMessage` object is the value `msgPV m` (never `None`).
    Each callee is (or will be) tied to its own source by another leaf:
    * `self.rxfn(rx_timeout)`               : the user's function = the bus of the model (`State.inbox`: an entry `(dt, m)` is returned after
                                              blocking for `dt`; `None` when the inbox is empty); no source in /repo;
    * `self._check_timeouts_rx()`           : `check_timeouts_rx_agrees` (LayerRx.lean);
    * `self.address.is_for_me(msg)`         : `isForMe_agrees` (AddressFns.lean);
    * `self._process_rx(msg)`               : `process_rx_agrees` (LayerRx.lean; its invariant `RxBufOk` is to be put in `R`);
    * `self.rate_limiter.update()`          : the rate-limiter region of LayerTxHelpers.lean / MiscTimer.lean;
    * `self._process_tx()`                  : the regions of LayerTx.lean (being written);
    * `self.txfn(msg)`                      : the user's function = the event `.tx now m` of the model's log; no source in /repo;
    * `self.tx_queue.empty()`               : the `queue.Queue` primitive (`qEmpty "#tx_queue"` of LayerQueues.lean);
    * `self.logger.isEnabledFor(DEBUG)`     : logging is off (the model has no logging);
    * `self.ProcessStats(...)`              : the constructor of a record of four integers. -/
structure ProcessCallees (M : Meths) (R : Env → State → Prop) (msgPV : CanMsg → PV) : Prop where
  msg_ne : ∀ m, msgPV m ≠ pnone
  /-- the text of `process` reads these -/
  reads : ∀ env s, R env s → Reads env s
  /-- an assignment to a local (or to `self.last_*_state`) does not change what the environment shows -/
  R_set : ∀ env s k v, k ∈ procWrites → R env s → R (env.set k v) s
  tx_queue_empty : ∀ env s, R env s → M.fn "self.tx_queue.empty" [] env = .ok (pbool s.txQueue.isEmpty)
  log_off : ∀ env v, M.fn "self.logger.isEnabledFor" [v] env = .ok (pbool false)
  is_for_me : ∀ env s m, R env s → M.fn "self.address.is_for_me" [msgPV m] env = .ok (pbool (s.addr.rx.isForMe m))
  stats : ∀ env (a b c d : Nat),
    M.fn "self.ProcessStats#received#received_processed#sent#frame_received" [pint a, pint b, pint c, pint d] env =
      .ok (encodeStats ⟨a, b, c, d⟩)
  /-- `msg = self.rxfn(rx_timeout)`, a frame is there: the clock advances by the blocking delay, the frame leaves the inbox, is logged -/
  rxfn_some : ∀ env s v dt m rest, R env s → s.inbox = (dt, m) :: rest →
    ∃ env', M.proc "msg:=self.rxfn" [v] env = .ok env' ∧
      R env' (({ s with inbox := rest, now := s.now + dt } : State).emit (.rx (s.now + dt) m)) ∧
      env' "msg" = some (msgPV m) ∧ Kept ["msg"] env env'
  /-- `msg = self.rxfn(rx_timeout)`, nothing there: `None` -/
  rxfn_none : ∀ env s v, R env s → s.inbox = [] →
    ∃ env', M.proc "msg:=self.rxfn" [v] env = .ok env' ∧ R env' (({ s with inbox := [] } : State).emit (.rxNone s.now)) ∧
      env' "msg" = some pnone ∧ Kept ["msg"] env env'
  check_timeouts_rx : ∀ env s, R env s →
    ∃ env', M.proc "self._check_timeouts_rx" [] env = .ok env' ∧ R env' s.checkTimeoutsRx ∧ Kept [] env env'
  process_rx : ∀ env s m, R env s →
    ∃ env', M.proc "rx_result:=self._process_rx" [msgPV m] env = .ok env' ∧ R env' (s.processRx m).1 ∧
      env' "rx_result.immediate_tx_required" = some (pbool (s.processRx m).2.1) ∧
      env' "rx_result.frame_received" = some (pbool (s.processRx m).2.2) ∧ Kept [] env env'
  rl_update : ∀ env s, R env s →
    ∃ env', M.proc "self.rate_limiter.update" [] env = .ok env' ∧ R env' { s with rl := s.rl.update s.cfg.rlWindowNs s.now } ∧
      Kept [] env env'
  /-- `tx_result = self._process_tx()` when the model's `processTx` does not raise -/
  process_tx : ∀ env s, R env s → s.processTx.1.exc = none →
    ∃ env', M.proc "tx_result:=self._process_tx" [] env = .ok env' ∧ R env' s.processTx.1 ∧
      env' "tx_result.msg" = some (optMsgPV msgPV s.processTx.2.1) ∧
      env' "tx_result.immediate_rx_required" = some (pbool s.processTx.2.2) ∧ Kept ["tx_result.immediate_rx_required"] env env'
  /-- ... and when it does (the model records the exception in `exc` and its callers stop): the call raises it -/
  process_tx_raises : ∀ env s e, R env s → s.exc = none → s.processTx.1.exc = some e →
    M.proc "tx_result:=self._process_tx" [] env = .error (.exc e)
  txfn : ∀ env s m, R env s →
    ∃ env', M.proc "self.txfn" [msgPV m] env = .ok env' ∧ R env' (s.emit (.tx s.now m)) ∧ Kept [] env env'

/-- the parameters, `run_process` and the four counters -/
structure Loc (env : Env) (doRx doTx : Bool) (tmo : PV) (run : Bool) (st : Stats) : Prop where
  doRx : env "do_rx" = some (pbool doRx)
  doTx : env "do_tx" = some (pbool doTx)
  tmo : env "rx_timeout" = some tmo
  run : env "run_process" = some (pbool run)
  received : env "msg_received" = some (pint st.received)
  processed : env "msg_received_processed" = some (pint st.processed)
  sent : env "msg_sent" = some (pint st.sent)
  frames : env "nb_frame_received" = some (pint st.frames)

namespace Loc
variable {env env' : Env} {doRx doTx run : Bool} {tmo : PV} {st : Stats}

/-- a callee that keeps the locals -/
theorem kept {ex : List String} (h : Loc env doRx doTx tmo run st) (hk : Kept ex env env')
    (hex : ∀ k ∈ ex, k = "first_loop" ∨ k = "msg" ∨ k = "tx_result.immediate_rx_required") : Loc env' doRx doTx tmo run st := by
  have e : ∀ k, k ∈ procLocals → k ≠ "first_loop" → k ≠ "msg" → k ≠ "tx_result.immediate_rx_required" → env' k = env k := by
    intro k hk1 h1 h2 h3
    refine hk k hk1 (fun hin => ?_)
    rcases hex k hin with h | h | h
    · exact h1 h
    · exact h2 h
    · exact h3 h
  constructor
  · rw [e _ (by decide) (by decide) (by decide) (by decide)]; exact h.doRx
  · rw [e _ (by decide) (by decide) (by decide) (by decide)]; exact h.doTx
  · rw [e _ (by decide) (by decide) (by decide) (by decide)]; exact h.tmo
  · rw [e _ (by decide) (by decide) (by decide) (by decide)]; exact h.run
  · rw [e _ (by decide) (by decide) (by decide) (by decide)]; exact h.received
  · rw [e _ (by decide) (by decide) (by decide) (by decide)]; exact h.processed
  · rw [e _ (by decide) (by decide) (by decide) (by decide)]; exact h.sent
  · rw [e _ (by decide) (by decide) (by decide) (by decide)]; exact h.frames

/-- the keys `Loc` talks about -/
def keys : List String :=
  ["do_rx", "do_tx", "rx_timeout", "run_process", "msg_received", "msg_received_processed", "msg_sent", "nb_frame_received"]

theorem set_other (h : Loc env doRx doTx tmo run st) (k : String) (v : PV) (hk : k ∉ keys) : Loc (env.set k v) doRx doTx tmo run st := by
  simp only [keys, List.mem_cons, List.not_mem_nil, or_false, not_or] at hk
  obtain ⟨h1, h2, h3, h4, h5, h6, h7, h8⟩ := hk
  constructor
  · rw [set_get, if_neg (Ne.symm h1)]; exact h.doRx
  · rw [set_get, if_neg (Ne.symm h2)]; exact h.doTx
  · rw [set_get, if_neg (Ne.symm h3)]; exact h.tmo
  · rw [set_get, if_neg (Ne.symm h4)]; exact h.run
  · rw [set_get, if_neg (Ne.symm h5)]; exact h.received
  · rw [set_get, if_neg (Ne.symm h6)]; exact h.processed
  · rw [set_get, if_neg (Ne.symm h7)]; exact h.sent
  · rw [set_get, if_neg (Ne.symm h8)]; exact h.frames

theorem set_run (h : Loc env doRx doTx tmo run st) (b : Bool) : Loc (env.set "run_process" (pbool b)) doRx doTx tmo b st := by
  constructor <;> simp [set_get, h.doRx, h.doTx, h.tmo, h.received, h.processed, h.sent, h.frames]

theorem set_received (h : Loc env doRx doTx tmo run st) (n : Nat) :
    Loc (env.set "msg_received" (pint n)) doRx doTx tmo run { st with received := n } := by
  constructor <;> simp [set_get, h.doRx, h.doTx, h.tmo, h.run, h.processed, h.sent, h.frames]

theorem set_processed (h : Loc env doRx doTx tmo run st) (n : Nat) :
    Loc (env.set "msg_received_processed" (pint n)) doRx doTx tmo run { st with processed := n } := by
  constructor <;> simp [set_get, h.doRx, h.doTx, h.tmo, h.run, h.received, h.sent, h.frames]

theorem set_sent (h : Loc env doRx doTx tmo run st) (n : Nat) :
    Loc (env.set "msg_sent" (pint n)) doRx doTx tmo run { st with sent := n } := by
  constructor <;> simp [set_get, h.doRx, h.doTx, h.tmo, h.run, h.received, h.processed, h.frames]

theorem set_frames (h : Loc env doRx doTx tmo run st) (n : Nat) :
    Loc (env.set "nb_frame_received" (pint n)) doRx doTx tmo run { st with frames := n } := by
  constructor <;> simp [set_get, h.doRx, h.doTx, h.tmo, h.run, h.received, h.processed, h.sent]

end Loc

/-- `x += 1` on a counter -/
theorem eval_incr (M : Meths) (env : Env) (k : String) (n : Nat) (h : env k = some (pint n)) :
    eval M env (.binop .add (.var k) (.int 1)) = .ok (pint ((n + 1 : Nat) : Int)) := by
  simp [eval, h]

/-! ## 2. the text of `process`, cut into its blocks -/

/-- the test of both inner loops: `msg is not None or first_loop` -/
def loopCond : PExpr := .or_ (.isNotNone (.var "msg")) (.var "first_loop")

def logTest : PExpr := .call "self.logger.isEnabledFor" (.cons (.var "logging.DEBUG") .nil)

/-- `msg_sent += 1; if DEBUG: ...; self.txfn(msg)` -/
def txSendBlk : PBlock :=
  .cons (.assign "msg_sent" (.binop .add (.var "msg_sent") (.int 1)))
  (.cons (.ite logTest .nil .nil)
  (.cons (.expr (.call "self.txfn" (.cons (.var "msg") .nil)))
  .nil))

def runBreakBlk : PBlock := .cons (.assign "run_process" .tt) (.cons .break_ .nil)

/-- the body of the inner tx loop -/
def txBody : PBlock :=
  .cons (.assign "first_loop" .ff)
  (.cons (.expr (.call "tx_result:=self._process_tx" .nil))
  (.cons (.assign "msg" (.var "tx_result.msg"))
  (.cons (.ite (.isNotNone (.var "msg")) txSendBlk .nil)
  (.cons (.ite (.var "tx_result.immediate_rx_required") runBreakBlk .nil)
  .nil))))

/-- the dead logging block of the rx loop (never run: logging is off) -/
def rxLogBlk : PBlock :=
  .cons (.assign "addr" (.ifexp (.var "msg.is_extended_id") (.call "__format__" (.cons (.var "msg.arbitration_id") .nil))
    (.call "__format__" (.cons (.var "msg.arbitration_id") .nil))))
  (.cons (.assign "processed" (.ifexp (.var "for_me") (.strLit "p") (.strLit "i")))
  .nil)

/-- `msg_received_processed += 1; rx_result = self._process_rx(msg); ...` -/
def rxForMeBlk : PBlock :=
  .cons (.assign "msg_received_processed" (.binop .add (.var "msg_received_processed") (.int 1)))
  (.cons (.expr (.call "rx_result:=self._process_rx" (.cons (.var "msg") .nil)))
  (.cons (.ite (.var "rx_result.frame_received")
    (.cons (.assign "nb_frame_received" (.binop .add (.var "nb_frame_received") (.int 1))) .nil) .nil)
  (.cons (.ite (.var "rx_result.immediate_tx_required") (.cons .break_ .nil) .nil)
  .nil)))

/-- `do_tx and self.tx_state in (TRANSMIT_CF, TRANSMIT_SF_STANDBY, TRANSMIT_FF_STANDBY)` -/
def timeDrivenTest : PExpr :=
  .and_ (.var "do_tx") (.cmp .isIn (.var "self.tx_state")
    (.lst (.cons (.var "self.TxState.TRANSMIT_CF") (.cons (.var "self.TxState.TRANSMIT_SF_STANDBY")
      (.cons (.var "self.TxState.TRANSMIT_FF_STANDBY") .nil)))))

/-- the block under `if msg is not None:` in the rx loop -/
def rxMsgBlk : PBlock :=
  .cons (.assign "msg_received" (.binop .add (.var "msg_received") (.int 1)))
  (.cons (.assign "for_me" (.call "self.address.is_for_me" (.cons (.var "msg") .nil)))
  (.cons (.ite logTest rxLogBlk .nil)
  (.cons (.ite (.var "for_me") rxForMeBlk .nil)
  (.cons (.ite timeDrivenTest runBreakBlk .nil)
  .nil))))

/-- the body of the inner rx loop -/
def rxBody : PBlock :=
  .cons (.assign "first_loop" .ff)
  (.cons (.expr (.call "msg:=self.rxfn" (.cons (.var "rx_timeout") .nil)))
  (.cons (.expr (.call "self._check_timeouts_rx" .nil))
  (.cons (.ite (.isNotNone (.var "msg")) rxMsgBlk .nil)
  .nil)))

def startWithTxExpr : PExpr :=
  .and_ (.var "do_tx") (.and_ (.not_ (.call "self.tx_queue.empty" .nil))
    (.and_ (.cmp .eq (.var "self.rx_state") (.var "self.RxState.IDLE")) (.cmp .eq (.var "self.tx_state") (.var "self.TxState.IDLE"))))

def rxPart : PBlock := .cons (.assign "first_loop" .tt) (.cons (.while_ loopCond rxBody) .nil)
def txPart : PBlock := .cons (.assign "first_loop" .tt) (.cons (.assign "msg" .none) (.cons (.while_ loopCond txBody) .nil))

def logStateBlk : PBlock :=
  .cons (.ite (.or_ (.cmp .ne (.var "self.last_rx_state") (.var "self.rx_state")) (.cmp .ne (.var "self.last_tx_state") (.var "self.tx_state")))
    .nil .nil) .nil

/-- the body of the outer loop -/
def outerBody : PBlock :=
  .cons (.assign "msg" .none)
  (.cons (.assign "run_process" .ff)
  (.cons (.assign "start_with_tx" startWithTxExpr)
  (.cons (.ite (.var "start_with_tx") (.cons (.assign "run_process" .tt) .nil) .nil)
  (.cons (.ite (.and_ (.var "do_rx") (.not_ (.var "start_with_tx"))) rxPart .nil)
  (.cons (.assign "start_with_tx" .ff)
  (.cons (.expr (.call "self.rate_limiter.update" .nil))
  (.cons (.ite (.var "do_tx") txPart .nil)
  (.cons (.ite logTest logStateBlk .nil)
  (.cons (.assign "self.last_tx_state" (.var "self.tx_state"))
  (.cons (.assign "self.last_rx_state" (.var "self.rx_state"))
  .nil))))))))))

def retStats : PStmt :=
  .ret (.call "self.ProcessStats#received#received_processed#sent#frame_received"
    (.cons (.var "msg_received") (.cons (.var "msg_received_processed") (.cons (.var "msg_sent") (.cons (.var "nb_frame_received") .nil)))))

/-- the dumped source IS these blocks -/
theorem process_src : Src.TransportLayerLogic_process =
    .cons (.assign "run_process" .tt)
    (.cons (.assign "msg_received" (.int 0))
    (.cons (.assign "msg_received_processed" (.int 0))
    (.cons (.assign "msg_sent" (.int 0))
    (.cons (.assign "nb_frame_received" (.int 0))
    (.cons (.while_ (.var "run_process") outerBody)
    (.cons retStats
    .nil)))))) := rfl

/-! ## 3. the inner tx loop -/

section loops
variable {M : Meths} {R : Env → State → Prop} {msgPV : CanMsg → PV}

theorem eval_loopCond (M : Meths) (env : Env) (mv : PV) (fl : Bool) (hm : env "msg" = some mv) (hf : env "first_loop" = some (pbool fl)) :
    eval M env loopCond = .ok (pbool ((mv != pnone) || fl)) := by
  cases h : (mv != pnone) <;> simp [loopCond, eval, hm, hf, h]

theorem eval_isNotNone (M : Meths) (env : Env) (k : String) (v : PV) (h : env k = some v) :
    eval M env (.isNotNone (.var k)) = .ok (pbool (v != pnone)) := by
  simp [eval, h]

theorem eval_logTest (hM : ProcessCallees M R msgPV) (env : Env) (s : State) (hR : R env s) :
    eval M env logTest = .ok (pbool false) :=
  fn1 M env _ _ _ _ (by decide) (eval_var M env _ _ (hM.reads env s hR).debug) (hM.log_off env _)

theorem msgPV_bne (hM : ProcessCallees M R msgPV) (m : CanMsg) : (msgPV m != pnone) = true := by
  simpa using hM.msg_ne m

/-- `msg_sent += 1; if DEBUG: ...; self.txfn(msg)` -/
theorem txSend_run (hM : ProcessCallees M R msgPV) (env : Env) (s : State) (m : CanMsg) (doRx doTx run : Bool) (tmo : PV) (st : Stats)
    (hR : R env s) (hL : Loc env doRx doTx tmo run st) (hmsg : env "msg" = some (msgPV m))
    (hfl : env "first_loop" = some (pbool false)) (imm : Bool) (himm : env "tx_result.immediate_rx_required" = some (pbool imm)) :
    ∃ env', (∀ k, exec2B (k + 5) M env txSendBlk = .ok (.next env')) ∧ R env' (s.emit (.tx s.now m)) ∧
      Loc env' doRx doTx tmo run { st with sent := st.sent + 1 } ∧ env' "msg" = some (msgPV m) ∧
      env' "first_loop" = some (pbool false) ∧ env' "tx_result.immediate_rx_required" = some (pbool imm) := by
  have hR1 := hM.R_set env s "msg_sent" (pint ((st.sent + 1 : Nat) : Int)) (by decide) hR
  obtain ⟨e2, p2, r2, k2⟩ := hM.txfn _ s m hR1
  have hm1 : (env.set "msg_sent" (pint ((st.sent + 1 : Nat) : Int))) "msg" = some (msgPV m) := by simp [set_get, hmsg]
  refine ⟨e2, ?_, r2, (hL.set_sent (st.sent + 1)).kept k2 (by simp), ?_, ?_, ?_⟩
  · intro k
    rw [txSendBlk, b_assign _ _ _ _ _ _ _ (eval_incr M env "msg_sent" st.sent hL.sent),
      b_ite_skip _ _ _ _ _ _ _ (eval_logTest hM _ s hR1) rfl,
      b_next _ _ _ e2 _ _ rfl (proc1 M _ e2 _ _ _ (by decide) (eval_var M _ _ _ hm1) p2), exec2B_nil]
  · rw [k2 _ (by decide) (by simp)]; exact hm1
  · rw [k2 _ (by decide) (by simp)]; simp [set_get, hfl]
  · rw [k2 _ (by decide) (by simp)]; simp [set_get, himm]

/-- one pass through the body of the tx loop, `_process_tx` not raising -/
theorem tx_body (hM : ProcessCallees M R msgPV) (env : Env) (s s1 : State) (out : Option CanMsg) (imm : Bool)
    (doRx doTx run : Bool) (tmo : PV) (st : Stats)
    (hR : R env s) (hL : Loc env doRx doTx tmo run st) (hp : s.processTx = (s1, out, imm)) (hexc : s1.exc = none) :
    ∃ envF, (∀ n, 12 ≤ n → exec2B n M env txBody = .ok (if imm then .brk envF else .next envF)) ∧
      R envF (match out with | some m => s1.emit (.tx s1.now m) | none => s1) ∧
      Loc envF doRx doTx tmo (run || imm) { st with sent := match out with | some _ => st.sent + 1 | none => st.sent } ∧
      envF "msg" = some (optMsgPV msgPV out) ∧ envF "first_loop" = some (pbool false) := by
  have hR0 := hM.R_set env s "first_loop" (pbool false) (by decide) hR
  obtain ⟨e1, p1, r1, m1, i1, k1⟩ := hM.process_tx _ s hR0 (by rw [hp]; exact hexc)
  rw [hp] at r1 m1 i1
  simp only at r1 m1 i1
  have L1 : Loc e1 doRx doTx tmo run st := (hL.set_other "first_loop" (pbool false) (by decide)).kept k1 (by simp)
  have f1 : e1 "first_loop" = some (pbool false) := by rw [k1 _ (by decide) (by simp)]; simp [set_get]
  -- `msg = tx_result.msg`
  have hR2 := hM.R_set e1 s1 "msg" (optMsgPV msgPV out) (by decide) r1
  have L2 : Loc (e1.set "msg" (optMsgPV msgPV out)) doRx doTx tmo run st := L1.set_other "msg" _ (by decide)
  have f2 : (e1.set "msg" (optMsgPV msgPV out)) "first_loop" = some (pbool false) := by simp [set_get, f1]
  have i2 : (e1.set "msg" (optMsgPV msgPV out)) "tx_result.immediate_rx_required" = some (pbool imm) := by simp [set_get, i1]
  have m2 : (e1.set "msg" (optMsgPV msgPV out)) "msg" = some (optMsgPV msgPV out) := by simp [set_get]
  have head : ∀ j, exec2B (j + 12) M env txBody =
      exec2B (j + 9) M (e1.set "msg" (optMsgPV msgPV out))
        (.cons (.ite (.isNotNone (.var "msg")) txSendBlk .nil)
          (.cons (.ite (.var "tx_result.immediate_rx_required") runBreakBlk .nil) .nil)) := by
    intro j
    rw [txBody, b_assign _ _ _ _ _ _ _ (by simp [eval] : eval M env .ff = .ok (pbool false)),
      b_next _ _ _ e1 _ _ rfl (proc0 M _ e1 _ (by decide) p1),
      b_assign _ _ _ _ _ _ _ (eval_var M _ _ _ m1)]
  -- the last statement: `if tx_result.immediate_rx_required: run_process = True; break`
  have last : ∀ (e3 : Env) (s3 : State) (st3 : Stats), R e3 s3 → Loc e3 doRx doTx tmo run st3 →
      e3 "tx_result.immediate_rx_required" = some (pbool imm) → e3 "msg" = some (optMsgPV msgPV out) →
      e3 "first_loop" = some (pbool false) →
      ∃ envF, (∀ j, exec2B (j + 8) M e3 (.cons (.ite (.var "tx_result.immediate_rx_required") runBreakBlk .nil) .nil) =
          .ok (if imm then .brk envF else .next envF)) ∧
        R envF s3 ∧ Loc envF doRx doTx tmo (run || imm) st3 ∧ envF "msg" = some (optMsgPV msgPV out) ∧
        envF "first_loop" = some (pbool false) := by
    intro e3 s3 st3 r3 L3 i3 m3 f3
    cases imm with
    | false =>
      refine ⟨e3, ?_, r3, by simpa using L3, m3, f3⟩
      intro j
      rw [b_ite_skip _ _ _ _ _ _ _ (eval_var M _ _ _ i3) rfl, exec2B_nil]
      rfl
    | true =>
      refine ⟨e3.set "run_process" (pbool true), ?_, hM.R_set _ _ _ _ (by decide) r3, by simpa using L3.set_run true,
        by simp [set_get, m3], by simp [set_get, f3]⟩
      intro j
      rw [b_ite_true _ _ _ _ _ _ _ _ (eval_var M _ _ _ i3) rfl, runBreakBlk,
        b_assign _ _ _ _ _ _ _ (by simp [eval] : eval M e3 .tt = .ok (pbool true)), b_break]
      rfl
  cases out with
  | none =>
    obtain ⟨envF, hrun, rF, LF, mF, fF⟩ := last _ s1 st hR2 L2 i2 m2 f2
    refine ⟨envF, ?_, rF, LF, mF, fF⟩
    intro n hn
    obtain ⟨j, rfl⟩ : ∃ j, n = j + 12 := ⟨n - 12, by omega⟩
    rw [head, b_ite_skip _ _ _ _ _ _ _ (eval_isNotNone M _ _ _ m2) (by simp [optMsgPV]), hrun]
  | some m =>
    obtain ⟨e3, hsend, r3, L3, m3, f3, i3⟩ := txSend_run hM _ s1 m doRx doTx run tmo st hR2 L2 m2 f2 imm i2
    obtain ⟨envF, hrun, rF, LF, mF, fF⟩ := last e3 _ _ r3 L3 i3 m3 f3
    refine ⟨envF, ?_, rF, LF, mF, fF⟩
    intro n hn
    obtain ⟨j, rfl⟩ : ∃ j, n = j + 12 := ⟨n - 12, by omega⟩
    rw [head, b_ite_true _ _ _ _ _ _ _ _ (eval_isNotNone M _ _ _ m2) (by simp [optMsgPV, msgPV_bne hM]), hsend]
    simp only
    rw [hrun]

/-- one step of the model's tx loop, in the shape of `tx_body` -/
theorem txLoop_succ (f : Nat) (s s1 : State) (n : Nat) (out : Option CanMsg) (imm : Bool) (hp : s.processTx = (s1, out, imm)) :
    State.txLoop (f + 1) s n =
      if s1.exc.isSome then (s1, n, false, false) else
      if imm then ((match out with | some m => s1.emit (.tx s1.now m) | none => s1), (match out with | some _ => n + 1 | none => n), true, false)
      else if out.isSome then
        State.txLoop f (match out with | some m => s1.emit (.tx s1.now m) | none => s1) (match out with | some _ => n + 1 | none => n)
      else (s1, n, false, false) := by
  simp only [State.txLoop, hp]
  cases out <;> simp

/-- **the inner tx loop = `State.txLoop`**: a run of the model with fuel `f` that neither runs out of fuel nor ends with an exception is a run
    of the `while` (fuel `≥ f + 13`): same final state (through `R`), `msg_sent` = the model's count, `run_process` raised iff the model asks
    for another pass. -/
theorem tx_loop_agrees (hM : ProcessCallees M R msgPV) : ∀ (f : Nat) (env : Env) (s : State) (doRx doTx run : Bool) (tmo : PV) (st : Stats)
    (mv : PV) (fl : Bool) (s' : State) (cnt' : Nat) (run' : Bool),
    R env s → Loc env doRx doTx tmo run st → env "msg" = some mv → env "first_loop" = some (pbool fl) → ((mv != pnone) || fl) = true →
    State.txLoop f s st.sent = (s', cnt', run', false) → s'.exc = none →
    ∃ env', (∀ n, f + 13 ≤ n → exec2S n M env (.while_ loopCond txBody) = .ok (.next env')) ∧ R env' s' ∧
      Loc env' doRx doTx tmo (run || run') { st with sent := cnt' }
  | 0, env, s, doRx, doTx, run, tmo, st, mv, fl, s', cnt', run', _, _, _, _, _, h, _ => by
    simp [State.txLoop] at h
  | f + 1, env, s, doRx, doTx, run, tmo, st, mv, fl, s', cnt', run', hR, hL, hm, hf, hc, h, hexc => by
    rcases hp : s.processTx with ⟨s1, out, imm⟩
    rw [txLoop_succ f s s1 st.sent out imm hp] at h
    cases he : s1.exc with
    | some e =>
      rw [he] at h
      simp only [Option.isSome_some, if_true, Prod.mk.injEq] at h
      rw [← h.1, he] at hexc
      cases hexc
    | none =>
      rw [he] at h
      simp only [Option.isSome_none, Bool.false_eq_true, if_false] at h
      obtain ⟨envF, hbody, rF, LF, mF, fF⟩ := tx_body hM env s s1 out imm doRx doTx run tmo st hR hL hp he
      have hcond := eval_loopCond M env mv fl hm hf
      cases imm with
      | true =>
        simp only [if_true, Prod.mk.injEq] at h
        obtain ⟨h1, h2, h3, -⟩ := h
        subst h1 h2 h3
        refine ⟨envF, ?_, rF, LF⟩
        intro n hn
        obtain ⟨k, rfl⟩ : ∃ k, n = k + 1 := ⟨n - 1, by omega⟩
        rw [w_true _ _ _ _ _ _ hcond (by rw [hc]; rfl), hbody k (by omega)]
        rfl
      | false =>
        simp only [Bool.false_eq_true, if_false] at h
        cases out with
        | none =>
          simp only [Option.isSome_none, Bool.false_eq_true, if_false, Prod.mk.injEq] at h
          obtain ⟨h1, h2, h3, -⟩ := h
          subst h1 h2 h3
          refine ⟨envF, ?_, rF, LF⟩
          intro n hn
          obtain ⟨k, rfl⟩ : ∃ k, n = k + 2 := ⟨n - 2, by omega⟩
          rw [w_true _ _ _ _ _ _ hcond (by rw [hc]; rfl), hbody (k + 1) (by omega)]
          simp only [Bool.false_eq_true, if_false]
          rw [w_false _ _ _ _ _ _ (eval_loopCond M envF _ _ mF fF) (by simp [optMsgPV])]
        | some m =>
          simp only [Option.isSome_some, if_true] at h
          obtain ⟨env', hrun, r', L'⟩ := tx_loop_agrees hM f envF _ doRx doTx (run || false) tmo _ _ _ s' cnt' run' rF LF mF fF
            (by simp [optMsgPV, msgPV_bne hM]) h hexc
          refine ⟨env', ?_, r', by simpa using L'⟩
          intro n hn
          obtain ⟨k, rfl⟩ : ∃ k, n = k + 1 := ⟨n - 1, by omega⟩
          rw [w_true _ _ _ _ _ _ hcond (by rw [hc]; rfl), hbody k (by omega)]
          simp only [Bool.false_eq_true, if_false]
          exact hrun k (by omega)

end loops

end Isotp.PyAgree
