import Isotp.Proofs.DuplexLive3
/-
  C10, liveness half, part 4: the abstract duplex machine never fails and always terminates — as long as the rounds
  elapsed are within the timeouts.

  * `PInv`: the invariant of a pass — the direction invariant (`DirInv`, DuplexLive3) of both directions, seen from
    the layer that is running `process()`; `mu`: the potential of a layer (3 per frame still to send, 1 per frame
    still to receive, 2 while waiting for a Flow Control that has not arrived, 1 once it sits in the mailbox or while
    the request is still queued).
  * `absRx_ok`, `absTx_ok`: one step of the abstract machine succeeds, keeps the invariant, does not increase the
    potential. `rxLoop_ok`, `txLoop_ok`, `procLoop_ok`, `pass_ok`: the loops and the whole pass.
-/
namespace Isotp.DuplexLive
open Isotp

theorem dataOf_append (l1 l2 : List Fr) : dataOf (l1 ++ l2) = dataOf l1 ++ dataOf l2 := by
  induction l1 with
  | nil => rfl
  | cons f l ih => cases f <;> simp [dataOf, ih]

theorem fcsOf_append (l1 l2 : List Fr) : fcsOf (l1 ++ l2) = fcsOf l1 + fcsOf l2 := by
  induction l1 with
  | nil => simp [fcsOf]
  | cons f l ih => cases f <;> simp [fcsOf, ih] <;> omega

/-- weight of the transmit phase in the potential -/
def txW : TxA → Bool → Nat
  | .W _ _, false => 2
  | .W _ _, true => 1
  | .I, _ => 1
  | _, _ => 0

/-- the potential of a layer -/
def mu (P : Par) (al : AL) : Nat :=
  3 * (P.n - sentOf P.n al.tx) + txW al.tx al.fc + (P.n' - gotOf P.n' al.rx)

/-- **The invariant of a pass**: `x` is the layer running `process()` (parameters `P`), `y` the other one -/
structure PInv (P : Par) (R : Nat) (y x : AL) : Prop where
  out : DirInv P.n P.bs' R x.tx x.fc (fcsOf x.inbox) (dataOf y.inbox ++ dataOf x.out) y.rx y.pend
  inn : DirInv P.n' P.bs R y.tx y.fc (fcsOf y.inbox + fcsOf x.out) (dataOf x.inbox) x.rx x.pend
  yp  : y.pend = false
  yf  : y.fc = false

section steps
variable {P : Par} {R : Nat} {y al : AL}

theorem cfOk_of_le (hK : R ≤ P.kCf) (rx : RxA) : cfOk P R rx = true := by
  cases rx with
  | S i t =>
    cases t with
    | none => rfl
    | some t => simp only [cfOk, decide_eq_true_eq]; omega
  | I => rfl
  | D => rfl

theorem gotOf_lt_of_head {n bs : Nat} {tx : TxA} {fc : Bool} {fcT m : Nat} {rest : List Nat} {rx : RxA} {pend : Bool}
    (h : DirInv n bs R tx fc fcT (m :: rest) rx pend) : gotOf n rx < n := by
  have := h.head.2.1
  have := sentOf_le h.txok
  omega

/-- **one `_process_rx` step of the abstract machine** succeeds, keeps the invariant and decreases the potential -/
theorem absRx_ok (h : PInv P R y al) {it : Fr} {rest : List Fr} (hib : al.inbox = it :: rest) (hp : al.pend = false)
    (hf : al.fc = false) (hK : R ≤ P.kCf) :
    ∃ al' imm, absRx P R { al with inbox := rest } it = some (al', imm) ∧ PInv P R y al' ∧ al'.inbox = rest ∧
      al'.out = al.out ∧ al'.tx = al.tx ∧ al'.done = al.done ∧ imm = (al'.pend || al'.fc) ∧
      (al'.pend && al'.fc) = false ∧ mu P al' < mu P al := by
  obtain ⟨tx, fc, rx, pend, inbox, out, done⟩ := al
  simp only [] at hib hp hf
  subst hib hp hf
  obtain ⟨ho, hi, yp, yf⟩ := h
  simp only [] at ho hi
  unfold absRx
  simp only [cfOk_of_le hK, Bool.not_true, Bool.false_eq_true, if_false]
  cases it with
  | fc =>
    simp only [fcsOf] at ho
    obtain ⟨k, r, htx, -⟩ := ho.fc_W (Or.inr (Or.inl (by omega)))
    subst htx
    refine ⟨_, _, rfl, ⟨ho.fc_arrive, ?_, yp, yf⟩, rfl, rfl, rfl, rfl, rfl, rfl, ?_⟩
    · simpa [dataOf] using hi
    · simp only [mu, txW]; omega
  | dat k =>
    simp only [dataOf] at hi
    simp only [fcsOf] at ho
    have hlt := gotOf_lt_of_head hi
    cases rx with
    | D => exact absurd hi.not_D id
    | I =>
      simp only [gotOf] at hlt
      by_cases hn : P.n' = 1
      · obtain ⟨hk, hi'⟩ := hi.recv_sf hn
        subst hk
        simp only [ne_eq, not_true_eq_false, if_false, hn, if_true]
        refine ⟨_, _, rfl, ⟨ho, hi', yp, yf⟩, rfl, rfl, rfl, rfl, rfl, rfl, ?_⟩
        simp only [mu, gotOf]; omega
      · obtain ⟨hk, hi'⟩ := hi.recv_ff hn
        subst hk
        simp only [ne_eq, not_true_eq_false, if_false, hn]
        refine ⟨_, _, rfl, ⟨ho, hi', yp, yf⟩, rfl, rfl, rfl, rfl, rfl, rfl, ?_⟩
        simp only [mu, gotOf]; omega
    | S i t =>
      simp only [gotOf] at hlt
      by_cases hn : i + 2 = P.n'
      · obtain ⟨hk, hi'⟩ := hi.recv_last hn
        subst hk
        simp only [ne_eq, not_true_eq_false, if_false, hn, if_true]
        refine ⟨_, _, rfl, ⟨ho, hi', yp, yf⟩, rfl, rfl, rfl, rfl, rfl, rfl, ?_⟩
        simp only [mu, gotOf]; omega
      · by_cases hb : 0 < P.bs ∧ (i + 1) % P.bs = 0
        · obtain ⟨hk, hi'⟩ := hi.recv_bnd hn hb
          subst hk
          simp only [ne_eq, not_true_eq_false, if_false, hn, hb, and_self, if_true]
          refine ⟨_, _, rfl, ⟨ho, hi', yp, yf⟩, rfl, rfl, rfl, rfl, rfl, rfl, ?_⟩
          simp only [mu, gotOf]; omega
        · obtain ⟨hk, hi'⟩ := hi.recv_plain hn hb
          subst hk
          simp only [ne_eq, not_true_eq_false, if_false, hn, hb]
          refine ⟨_, _, rfl, ⟨ho, hi', yp, yf⟩, rfl, rfl, rfl, rfl, rfl, rfl, ?_⟩
          simp only [mu, gotOf]; omega

/-! ### the transmit side -/

/-- iterations the inner tx loop still needs -/
def need (P : Par) (al : AL) : Nat :=
  if al.pend then 1 else
  match al.tx with
  | .I => 2
  | .W k _ => if al.fc then P.n - k + 1 else 1
  | .T k _ _ => P.n - k + 1
  | .D => 1

theorem need_le_txNeed (P : Par) (al : AL) (h : PInv P R y al) : need P al ≤ txNeed P al.tx := by
  unfold need txNeed
  have := h.out.txok
  split
  · cases al.tx <;> simp only [TxOk] at * <;> omega
  · cases al.tx <;> simp only [] <;> (try split) <;> omega

theorem mu_pushOut (P : Par) (al : AL) (o : Option Fr) : mu P (pushOut al o) = mu P al := by
  cases o <;> rfl

theorem PInv.push_dat (h : DirInv P.n P.bs' R al.tx al.fc (fcsOf al.inbox) (dataOf y.inbox ++ dataOf al.out ++ [k]) y.rx y.pend)
    (hi : DirInv P.n' P.bs R y.tx y.fc (fcsOf y.inbox + fcsOf al.out) (dataOf al.inbox) al.rx al.pend)
    (yp : y.pend = false) (yf : y.fc = false) : PInv P R y (pushOut al (some (.dat k))) := by
  refine ⟨?_, ?_, yp, yf⟩
  · show DirInv _ _ _ _ _ _ (dataOf y.inbox ++ dataOf (al.out ++ [Fr.dat k])) _ _
    rw [dataOf_append, ← List.append_assoc]; exact h
  · show DirInv _ _ _ _ _ (fcsOf y.inbox + fcsOf (al.out ++ [Fr.dat k])) (dataOf al.inbox) al.rx al.pend
    rw [fcsOf_append]; simpa [fcsOf] using hi

/-- what a step of the transmit state machine guarantees (`al`: before, mailbox empty, nothing pending) -/
structure FsmPost (P : Par) (R : Nat) (y al al' : AL) (out : Option Fr) (imm : Bool) : Prop where
  inv    : PInv P R y (pushOut al' out)
  pend   : al'.pend = false
  fc     : al'.fc = false
  inbox  : al'.inbox = al.inbox
  notI   : al'.tx ≠ .I
  mule   : mu P al' ≤ mu P al
  immT   : imm = true → timeDriven al'.tx = false ∧ timeDriven al.tx = true ∧ out.isSome = true
  cont   : imm = false → out.isSome = true → need P al' < need P al
  keepT  : timeDriven al'.tx = true → timeDriven al.tx = true
  doneD  : al'.tx = .D → al.tx = .D ∨ al'.done = true
  doneM  : al.done = true → al'.done = true
  strict : (al.tx = .I ∨ ∃ k j r, al.tx = .T k j r ∧ (P.z = true ∨ r < R)) → mu P al' < mu P al
  stay   : out = none → al' = al

/-- **the state machine part of `_process_tx`** on the abstract state succeeds and keeps the invariant -/
theorem fsm_ok (h : PInv P R y al) (hp : al.pend = false) (hf : al.fc = false) :
    ∃ al' out imm, absFsm P R al = some (al', out, imm) ∧ FsmPost P R y al al' out imm := by
  obtain ⟨tx, fc, rx, pend, inbox, out, done⟩ := al
  simp only [] at hp hf
  subst hp hf
  obtain ⟨ho, hi, yp, yf⟩ := h
  simp only [] at ho hi
  unfold absFsm
  cases tx with
  | I =>
    simp only []
    by_cases hn : P.n = 1
    · rw [if_pos hn]
      have ho' := ho.emit_sf hn
      refine ⟨_, _, _, rfl, ⟨PInv.push_dat (by simpa [List.append_assoc] using ho') hi yp yf, rfl, rfl, rfl,
        (by intro hh; cases hh), ?_, (by intro hh; cases hh), ?_, (by intro hh; cases hh), fun _ => Or.inr rfl,
        fun _ => rfl, ?_, (by intro hh; cases hh)⟩⟩
      · simp only [mu, sentOf, txW]; omega
      · intro _ _; simp [need]
      · intro _; simp only [mu, sentOf, txW]; omega
    · rw [if_neg hn]
      have ho' := ho.emit_ff hn
      have n1 := ho.n1
      refine ⟨_, _, _, rfl, ⟨PInv.push_dat (by simpa [List.append_assoc] using ho') hi yp yf, rfl, rfl, rfl,
        (by intro hh; cases hh), ?_, (by intro hh; cases hh), ?_, (by intro hh; cases hh), (by intro hh; cases hh),
        fun hd => hd, ?_, (by intro hh; cases hh)⟩⟩
      · simp only [mu, sentOf, txW]; omega
      · intro _ _; simp [need]
      · intro _; simp only [mu, sentOf, txW]; omega
  | W k r =>
    refine ⟨_, _, _, rfl, ⟨⟨ho, hi, yp, yf⟩, rfl, rfl, rfl, (by intro hh; cases hh), Nat.le_refl _,
      (by intro hh; cases hh), (by intro _ hh; cases hh), fun hh => hh, (by intro hh; cases hh), fun hd => hd, ?_, fun _ => rfl⟩⟩
    intro hh
    rcases hh with hh | ⟨_, _, _, hh, _⟩ <;> cases hh
  | D =>
    refine ⟨_, _, _, rfl, ⟨⟨ho, hi, yp, yf⟩, rfl, rfl, rfl, (by intro hh; cases hh), Nat.le_refl _,
      (by intro hh; cases hh), (by intro _ hh; cases hh), fun hh => hh, fun _ => Or.inl rfl, fun hd => hd, ?_, fun _ => rfl⟩⟩
    intro hh
    rcases hh with hh | ⟨_, _, _, hh, _⟩ <;> cases hh
  | T k j r =>
    simp only []
    have htx := ho.txok
    simp only [TxOk] at htx
    by_cases hel : (P.z || decide (r < R)) = true
    · rw [if_pos hel]
      by_cases hl : k + 1 = P.n
      · rw [if_pos hl]
        have ho' := ho.emit_last hl
        refine ⟨_, _, _, rfl, ⟨PInv.push_dat (by simpa [List.append_assoc] using ho') hi yp yf, rfl, rfl, rfl,
          (by intro hh; cases hh), ?_, (by intro hh; cases hh), ?_, (by intro hh; cases hh), fun _ => Or.inr rfl,
          fun _ => rfl, ?_, (by intro hh; cases hh)⟩⟩
        · simp only [mu, sentOf, txW]; omega
        · intro _ _; simp only [need]; simp; omega
        · intro _; simp only [mu, sentOf, txW]; omega
      · rw [if_neg hl]
        by_cases hb : P.bs' ≠ 0 ∧ j + 1 ≥ P.bs'
        · rw [if_pos hb]
          have ho' := ho.emit_block hl hb
          refine ⟨_, _, _, rfl, ⟨PInv.push_dat (by simpa [List.append_assoc] using ho') hi yp yf, rfl, rfl, rfl,
            (by intro hh; cases hh), ?_, fun _ => ⟨rfl, rfl, rfl⟩, (by intro hh; cases hh), (by intro hh; cases hh),
            (by intro hh; cases hh), fun hd => hd, ?_, (by intro hh; cases hh)⟩⟩
          · simp only [mu, sentOf, txW]; omega
          · intro _; simp only [mu, sentOf, txW]; omega
        · rw [if_neg hb]
          have ho' := ho.emit_more hl hb
          refine ⟨_, _, _, rfl, ⟨PInv.push_dat (by simpa [List.append_assoc] using ho') hi yp yf, rfl, rfl, rfl,
            (by intro hh; cases hh), ?_, (by intro hh; cases hh), ?_, fun _ => rfl, (by intro hh; cases hh),
            fun hd => hd, ?_, (by intro hh; cases hh)⟩⟩
          · simp only [mu, sentOf, txW]; omega
          · intro _ _; simp only [need]; simp; omega
          · intro _; simp only [mu, sentOf, txW]; omega
    · rw [if_neg hel]
      refine ⟨_, _, _, rfl, ⟨⟨ho, hi, yp, yf⟩, rfl, rfl, rfl, (by intro hh; cases hh), Nat.le_refl _,
        (by intro hh; cases hh), (by intro _ hh; cases hh), fun hh => hh, (by intro hh; cases hh), fun hd => hd, ?_,
        fun _ => rfl⟩⟩
      intro hh
      rcases hh with hh | ⟨k', j', r', hh, hz⟩
      · cases hh
      · cases hh
        exfalso; apply hel
        rcases hz with hz | hz
        · simp [hz]
        · simp [hz]

/-- what one `_process_tx` step guarantees (`al`: before; not both a pending Flow Control and a full mailbox) -/
structure TxPost (P : Par) (R : Nat) (y al al' : AL) (out : Option Fr) (imm : Bool) : Prop where
  inv    : PInv P R y (pushOut al' out)
  pend   : al'.pend = false
  inbox  : al'.inbox = al.inbox
  mule   : mu P al' ≤ mu P al
  pcase  : al.pend = true → al'.fc = al.fc ∧ al'.tx = al.tx ∧ imm = true ∧ al'.done = al.done
  fc     : al.pend = false → al'.fc = false ∧ al'.tx ≠ .I
  immT   : al.pend = false → imm = true → timeDriven al'.tx = false ∧ (timeDriven al.tx = true ∨ al.fc = true)
  cont   : imm = false → out.isSome = true → need P al' < need P al
  keepT  : al.pend = false → timeDriven al'.tx = true → timeDriven al.tx = true ∨ al.fc = true
  doneD  : al'.tx = .D → al.tx = .D ∨ al'.done = true
  doneM  : al.done = true → al'.done = true
  strict : al.pend = false → (al.tx = .I ∨ (∃ k j r, al.tx = .T k j r ∧ (P.z = true ∨ r < R)) ∨ al.fc = true) →
             mu P al' < mu P al

theorem FsmPost.toTx {al al' : AL} {out : Option Fr} {imm : Bool} (h : FsmPost P R y al al' out imm)
    (hp : al.pend = false) (hf : al.fc = false) : TxPost P R y al al' out imm :=
  ⟨h.inv, h.pend, h.inbox, h.mule, (fun hh => by rw [hp] at hh; cases hh), fun _ => ⟨h.fc, h.notI⟩,
    fun _ hi => ⟨(h.immT hi).1, Or.inl (h.immT hi).2.1⟩, h.cont, fun _ ht => Or.inl (h.keepT ht), h.doneD, h.doneM,
    (fun _ hs => by
      rcases hs with hs | hs | hs
      · exact h.strict (Or.inl hs)
      · exact h.strict (Or.inr hs)
      · rw [hf] at hs; cases hs)⟩

/-- **one `_process_tx` step of the abstract machine** succeeds and keeps the invariant -/
theorem absTx_ok (h : PInv P R y al) (hpf : (al.pend && al.fc) = false) (hK : R ≤ P.kFc) :
    ∃ al' out imm, absTx P R al = some (al', out, imm) ∧ TxPost P R y al al' out imm := by
  obtain ⟨tx, fc, rx, pend, inbox, out, done⟩ := al
  simp only [] at hpf
  unfold absTx
  cases pend with
  | true =>
    have hf : fc = false := by simpa using hpf
    subst hf
    obtain ⟨ho, hi, yp, yf⟩ := h
    simp only [] at ho hi
    obtain ⟨i, t, hrx, hi'⟩ := hi.serve
    subst hrx
    simp only [if_true]
    refine ⟨_, _, _, rfl, ⟨⟨?_, ?_, yp, yf⟩, rfl, rfl, Nat.le_refl _, fun _ => ⟨rfl, rfl, rfl, rfl⟩,
      (by intro hh; cases hh), (by intro hh; cases hh), (by intro hh; cases hh), (by intro hh; cases hh),
      fun hd => Or.inl hd, fun hd => hd, (by intro hh; cases hh)⟩⟩
    · show DirInv _ _ _ tx false (fcsOf inbox) (dataOf y.inbox ++ dataOf (out ++ [Fr.fc])) _ _
      rw [dataOf_append]; simpa [dataOf] using ho
    · show DirInv _ _ _ _ _ (fcsOf y.inbox + fcsOf (out ++ [Fr.fc])) (dataOf inbox) (.S i (some R)) false
      rw [fcsOf_append]; simpa [fcsOf, Nat.add_assoc] using hi'
  | false =>
    simp only [Bool.false_eq_true, if_false]
    have hho := h.out
    simp only [] at hho
    cases fc with
    | false =>
      -- mailbox empty: the state machine runs on the state as it is
      have hmail : absMail P R { tx := tx, fc := false, rx := rx, pend := false, inbox := inbox, out := out, done := done }
          = some tx := by
        unfold absMail
        cases tx with
        | W k r => simp only []; rw [if_pos (by omega)]; simp
        | I => simp
        | D => simp
        | T k j r => simp
      rw [hmail]
      simp only []
      obtain ⟨al', o, imm, e, hpost⟩ := fsm_ok h rfl rfl
      exact ⟨al', o, imm, e, hpost.toTx rfl rfl⟩
    | true =>
      obtain ⟨k, r, htx, -⟩ := hho.fc_W (Or.inl rfl)
      subst htx
      obtain ⟨hT, hf0, hp0⟩ := hho.absorb
      have hmail : absMail P R { tx := .W k r, fc := true, rx := rx, pend := false, inbox := inbox, out := out, done := done }
          = some (.T k 0 R) := by
        unfold absMail
        simp only []; rw [if_pos (by omega)]; simp
      rw [hmail]
      simp only []
      have h0 : PInv P R y { tx := .T k 0 R, fc := false, rx := rx, pend := false, inbox := inbox, out := out, done := done } :=
        ⟨hT, h.inn, h.yp, h.yf⟩
      obtain ⟨al', o, imm, e, hpost⟩ := fsm_ok h0 rfl rfl
      refine ⟨al', o, imm, e, ⟨hpost.inv, hpost.pend, hpost.inbox, ?_, (by intro hh; cases hh), fun _ => ⟨hpost.fc, hpost.notI⟩,
        fun _ hi => ⟨(hpost.immT hi).1, Or.inr rfl⟩, ?_, fun _ _ => Or.inr rfl, ?_, hpost.doneM, ?_⟩⟩
      · have := hpost.mule; simp only [mu, sentOf, txW] at *; omega
      · intro hi ho'
        have := hpost.cont hi ho'
        simp only [need] at *
        simpa using this
      · intro hd
        rcases hpost.doneD hd with hh | hh
        · cases hh
        · exact Or.inr hh
      · intro _ _
        have := hpost.mule; simp only [mu, sentOf, txW] at *; omega

/-! ### the loops -/

/-- what the inner rx loop guarantees -/
structure RxLoopPost (P : Par) (R : Nat) (y al al' : AL) (rr : Bool) : Prop where
  inv    : PInv P R y al'
  flags  : (al'.pend && al'.fc) = false
  out    : al'.out = al.out
  tx     : al'.tx = al.tx
  done   : al'.done = al.done
  mule   : mu P al' ≤ mu P al
  len    : al'.inbox.length ≤ al.inbox.length
  strict : al.inbox ≠ [] → mu P al' < mu P al ∧ al'.inbox.length < al.inbox.length
  rrT    : rr = true → al'.pend = false ∧ al'.fc = false
  nil    : al.inbox = [] → al'.pend = false ∧ al'.fc = false ∧ rr = false

theorem rxLoop_ok (hK : R ≤ P.kCf) : ∀ (items : List Fr) (al : AL), al.inbox = items → PInv P R y al →
    al.pend = false → al.fc = false →
    ∃ al' rr, absRxLoop P R al items = some (al', rr) ∧ RxLoopPost P R y al al' rr := by
  intro items
  induction items with
  | nil =>
    intro al hib h hp hf
    unfold absRxLoop
    rw [if_pos (cfOk_of_le hK _)]
    have e : ({ al with inbox := [] } : AL) = al := by cases al; simp_all
    rw [e]
    exact ⟨al, false, rfl, ⟨h, by simp [hp], rfl, rfl, rfl, Nat.le_refl _, Nat.le_refl _,
      fun hne => absurd hib hne, (fun hh => by cases hh), fun _ => ⟨hp, hf, rfl⟩⟩⟩
  | cons it rest ih =>
    intro al hib h hp hf
    obtain ⟨al1, imm, e1, h1, i1, o1, t1, d1, himm, hfl, hmu⟩ := absRx_ok h hib hp hf hK
    unfold absRxLoop
    rw [e1]
    simp only []
    have hlen : al1.inbox.length < al.inbox.length := by rw [i1, hib]; simp
    by_cases hi : imm = true
    · rw [if_pos hi]
      exact ⟨al1, false, rfl, ⟨h1, hfl, o1, t1, d1, Nat.le_of_lt hmu, Nat.le_of_lt hlen, fun _ => ⟨hmu, hlen⟩,
        (fun hh => by cases hh), (fun hn => by rw [hib] at hn; cases hn)⟩⟩
    · rw [if_neg hi]
      have hi' : imm = false := by simpa using hi
      have hpf : al1.pend = false ∧ al1.fc = false := by
        rw [hi'] at himm
        have := himm.symm
        simpa [Bool.or_eq_false_iff] using this
      by_cases htd : timeDriven al1.tx = true
      · rw [if_pos htd]
        exact ⟨al1, true, rfl, ⟨h1, hfl, o1, t1, d1, Nat.le_of_lt hmu, Nat.le_of_lt hlen, fun _ => ⟨hmu, hlen⟩,
          fun _ => hpf, fun hn => by rw [hib] at hn; cases hn⟩⟩
      · rw [if_neg htd]
        obtain ⟨al2, rr, e2, p2⟩ := ih al1 i1 h1 hpf.1 hpf.2
        refine ⟨al2, rr, e2, ⟨p2.inv, p2.flags, p2.out.trans o1, p2.tx.trans t1, p2.done.trans d1,
          Nat.le_trans p2.mule (Nat.le_of_lt hmu), Nat.le_trans p2.len (Nat.le_of_lt hlen),
          fun _ => ⟨Nat.lt_of_le_of_lt p2.mule hmu, Nat.lt_of_le_of_lt p2.len hlen⟩, p2.rrT,
          fun hn => by rw [hib] at hn; cases hn⟩⟩

/-- what the inner tx loop guarantees -/
structure TxLoopPost (P : Par) (R : Nat) (y al al' : AL) (run : Bool) : Prop where
  inv    : PInv P R y al'
  pend   : al'.pend = false
  fc     : al'.fc = false
  inbox  : al'.inbox = al.inbox
  mule   : mu P al' ≤ mu P al
  notI   : al.pend = false → al'.tx ≠ .I
  pcase  : al.pend = true → al'.tx = al.tx ∧ run = true ∧ al'.done = al.done
  runT   : al.pend = false → run = true → timeDriven al'.tx = false ∧ (timeDriven al.tx = true ∨ al.fc = true)
  keepT  : al.pend = false → timeDriven al'.tx = true → timeDriven al.tx = true ∨ al.fc = true
  doneD  : al'.tx = .D → al.tx = .D ∨ al'.done = true
  doneM  : al.done = true → al'.done = true
  strict : al.pend = false → (al.tx = .I ∨ (∃ k j r, al.tx = .T k j r ∧ (P.z = true ∨ r < R)) ∨ al.fc = true) →
             mu P al' < mu P al

theorem need_pos (P : Par) (al : AL) : 1 ≤ need P al := by
  unfold need
  split
  · omega
  · split <;> (try split) <;> omega

theorem need_pushOut (P : Par) (al : AL) (o : Option Fr) : need P (pushOut al o) = need P al := by
  cases o <;> rfl

theorem txLoop_ok (hK : R ≤ P.kFc) : ∀ (g : Nat) (al : AL), need P al ≤ g → PInv P R y al →
    (al.pend && al.fc) = false →
    ∃ al' run, absTxLoop P R g al = some (al', run) ∧ TxLoopPost P R y al al' run := by
  intro g
  induction g with
  | zero => intro al hn _ _; have := need_pos P al; omega
  | succ g ih =>
    intro al hn h hpf
    obtain ⟨al1, out, imm, e1, p1⟩ := absTx_ok h hpf hK
    unfold absTxLoop
    rw [e1]
    simp only []
    have hfc1 : (pushOut al1 out).fc = false := by
      cases hp : al.pend with
      | false => cases out <;> exact (p1.fc hp).1
      | true =>
        have : al.fc = false := by simpa [hp] using hpf
        cases out <;> exact ((p1.pcase hp).1).trans this
    have hpe1 : (pushOut al1 out).pend = false := by cases out <;> exact p1.pend
    have hib1 : (pushOut al1 out).inbox = al.inbox := by cases out <;> exact p1.inbox
    have htx1 : (pushOut al1 out).tx = al1.tx := by cases out <;> rfl
    have hdn1 : (pushOut al1 out).done = al1.done := by cases out <;> rfl
    have hmu1 : mu P (pushOut al1 out) ≤ mu P al := by rw [mu_pushOut]; exact p1.mule
    by_cases hi : imm = true
    · rw [if_pos hi]
      refine ⟨_, true, rfl, ⟨p1.inv, hpe1, hfc1, hib1, hmu1, ?_, ?_, ?_, ?_, ?_, ?_, ?_⟩⟩
      · intro hp; rw [htx1]; exact (p1.fc hp).2
      · intro hp; rw [htx1, hdn1]; exact ⟨(p1.pcase hp).2.1, rfl, (p1.pcase hp).2.2.2⟩
      · intro hp _; rw [htx1]; exact p1.immT hp hi
      · intro hp ht; rw [htx1] at ht; exact p1.keepT hp ht
      · intro hd; rw [htx1] at hd; rw [hdn1]; exact p1.doneD hd
      · intro hd; rw [hdn1]; exact p1.doneM hd
      · intro hp hs; rw [mu_pushOut]; exact p1.strict hp hs
    · rw [if_neg hi]
      have hi' : imm = false := by simpa using hi
      have hp : al.pend = false := by
        cases hp : al.pend with
        | false => rfl
        | true => have := (p1.pcase hp).2.2.1; rw [hi'] at this; cases this
      by_cases ho : out.isSome = true
      · rw [if_pos ho]
        have hneed : need P (pushOut al1 out) ≤ g := by
          rw [need_pushOut]; have := p1.cont hi' ho; omega
        obtain ⟨al2, run, e2, p2⟩ := ih (pushOut al1 out) hneed p1.inv (by simp [hpe1])
        refine ⟨al2, run, e2, ⟨p2.inv, p2.pend, p2.fc, p2.inbox.trans hib1, Nat.le_trans p2.mule hmu1, ?_, ?_, ?_, ?_, ?_,
          ?_, ?_⟩⟩
        · intro _; exact p2.notI hpe1
        · intro hh; rw [hp] at hh; cases hh
        · intro _ hr
          obtain ⟨r1, r2⟩ := p2.runT hpe1 hr
          refine ⟨r1, ?_⟩
          rcases r2 with r2 | r2
          · rw [htx1] at r2; exact p1.keepT hp r2
          · rw [hfc1] at r2; cases r2
        · intro _ ht
          rcases p2.keepT hpe1 ht with r2 | r2
          · rw [htx1] at r2; exact p1.keepT hp r2
          · rw [hfc1] at r2; cases r2
        · intro hd
          rcases p2.doneD hd with r2 | r2
          · rw [htx1] at r2
            rcases p1.doneD r2 with r3 | r3
            · exact Or.inl r3
            · exact Or.inr (p2.doneM (by rw [hdn1]; exact r3))
          · exact Or.inr r2
        · intro hd; exact p2.doneM (by rw [hdn1]; exact p1.doneM hd)
        · intro _ hs
          have := p1.strict hp hs
          have := p2.mule
          rw [mu_pushOut] at this
          omega
      · rw [if_neg ho]
        refine ⟨_, false, rfl, ⟨p1.inv, hpe1, hfc1, hib1, hmu1, ?_, ?_, ?_, ?_, ?_, ?_, ?_⟩⟩
        · intro hp; rw [htx1]; exact (p1.fc hp).2
        · intro hh; rw [hp] at hh; cases hh
        · intro _ hh; cases hh
        · intro hp ht; rw [htx1] at ht; exact p1.keepT hp ht
        · intro hd; rw [htx1] at hd; rw [hdn1]; exact p1.doneD hd
        · intro hd; rw [hdn1]; exact p1.doneM hd
        · intro hp hs; rw [mu_pushOut]; exact p1.strict hp hs

/-- the potential that bounds the number of iterations of the outer loop -/
def psi (al : AL) : Nat :=
  2 * al.inbox.length + (if al.tx = .I then 2 else 0) + (if timeDriven al.tx = true then 1 else 0)

/-- the pass makes progress from `al` -/
def Moves (P : Par) (R : Nat) (al : AL) : Prop :=
  al.tx = .I ∨ al.inbox ≠ [] ∨ ∃ k j r, al.tx = .T k j r ∧ (P.z = true ∨ r < R)

/-- what the outer loop (hence a whole `process()` call) guarantees -/
structure PassPost (P : Par) (R : Nat) (y al al' : AL) : Prop where
  inv    : PInv P R y al'
  pend   : al'.pend = false
  fc     : al'.fc = false
  mule   : mu P al' ≤ mu P al
  strict : Moves P R al → mu P al' < mu P al
  doneD  : al'.tx = .D → al.tx = .D ∨ al'.done = true
  doneM  : al.done = true → al'.done = true

theorem psi_tI_le {al al' : AL} (h : al'.tx = .I → al.tx = .I) :
    (if al'.tx = .I then 2 else 0) ≤ (if al.tx = .I then 2 else 0) := by
  by_cases h1 : al'.tx = .I
  · rw [if_pos h1, if_pos (h h1)]; exact Nat.le_refl 2
  · rw [if_neg h1]; exact Nat.zero_le _

theorem procLoop_ok (hKc : R ≤ P.kCf) (hKf : R ≤ P.kFc) : ∀ (f : Nat) (al : AL), psi al < f → PInv P R y al →
    al.pend = false → al.fc = false →
    ∃ al', absProcLoop P R f al = some al' ∧ PassPost P R y al al' := by
  intro f
  induction f with
  | zero => intro al hf; omega
  | succ f ih =>
    intro al hpsi h hp hf
    unfold absProcLoop
    simp only []
    cases hsw : (decide (al.tx = .I) && rxIdle al.rx) with
    | true =>
      simp only [Bool.not_true, Bool.false_eq_true, if_false, Bool.true_or, if_true]
      have htx : al.tx = .I := by
        have := hsw; simp only [Bool.and_eq_true, decide_eq_true_eq] at this; exact this.1
      obtain ⟨al2, run, e2, p2⟩ := txLoop_ok hKf (txNeed P al.tx) al (need_le_txNeed P al h) h (by simp [hp])
      rw [e2]
      simp only []
      have hnT : timeDriven al2.tx = false := by
        cases ht : timeDriven al2.tx with
        | false => rfl
        | true =>
          rcases p2.keepT hp ht with r | r
          · rw [htx] at r; cases r
          · rw [hf] at r; cases r
      have hpsi2 : psi al2 < f := by
        unfold psi at *
        rw [p2.inbox, hnT, if_neg (p2.notI hp)]
        rw [htx] at hpsi
        simp only [if_true, timeDriven] at hpsi
        simp only [Bool.false_eq_true, if_false]
        omega
      obtain ⟨al3, e3, p3⟩ := ih al2 hpsi2 p2.inv p2.pend p2.fc
      refine ⟨al3, e3, ⟨p3.inv, p3.pend, p3.fc, Nat.le_trans p3.mule p2.mule, ?_, ?_, ?_⟩⟩
      · intro _
        have := p2.strict hp (Or.inl htx)
        have := p3.mule
        omega
      · intro hd
        rcases p3.doneD hd with r | r
        · rcases p2.doneD r with r' | r'
          · exact Or.inl r'
          · exact Or.inr (p3.doneM r')
        · exact Or.inr r
      · intro hd; exact p3.doneM (p2.doneM hd)
    | false =>
      simp only [Bool.not_false, if_true, Bool.false_or]
      obtain ⟨al1, rxRun, e1, p1⟩ := rxLoop_ok hKc al.inbox al rfl h hp hf
      rw [e1]
      simp only []
      obtain ⟨al2, run, e2, p2⟩ := txLoop_ok hKf (txNeed P al1.tx) al1 (need_le_txNeed P al1 p1.inv) p1.inv p1.flags
      rw [e2]
      simp only []
      have hmu2 : mu P al2 ≤ mu P al := Nat.le_trans p2.mule p1.mule
      have hstrict : Moves P R al → mu P al2 < mu P al := by
        intro hm
        by_cases hne : al.inbox = []
        · obtain ⟨q1, q2, q3⟩ := p1.nil hne
          have hs : al1.tx = .I ∨ (∃ k j r, al1.tx = .T k j r ∧ (P.z = true ∨ r < R)) ∨ al1.fc = true := by
            rw [p1.tx]
            rcases hm with hm | hm | hm
            · exact Or.inl hm
            · exact absurd hne hm
            · exact Or.inr (Or.inl hm)
          have := p2.strict q1 hs
          have := p1.mule
          omega
        · have := (p1.strict hne).1
          have := p2.mule
          omega
      have hdoneD : al2.tx = .D → al.tx = .D ∨ al2.done = true := by
        intro hd
        rcases p2.doneD hd with r | r
        · rw [p1.tx] at r; exact Or.inl r
        · exact Or.inr r
      have hdoneM : al.done = true → al2.done = true := by
        intro hd; exact p2.doneM (by rw [p1.done]; exact hd)
      by_cases hgo : (rxRun || run) = true
      · rw [if_pos hgo]
        have hI : al2.tx = .I → al.tx = .I := by
          intro h2
          cases hp1 : al1.pend with
          | false => exact absurd h2 (p2.notI hp1)
          | true => rw [← p1.tx, ← (p2.pcase hp1).1]; exact h2
        have hpsi2 : psi al2 < f := by
          have hti := psi_tI_le hI
          unfold psi at *
          rw [p2.inbox]
          by_cases hne : al.inbox = []
          · obtain ⟨q1, q2, q3⟩ := p1.nil hne
            subst q3
            have hrun : run = true := by simpa using hgo
            obtain ⟨r1, r2⟩ := p2.runT q1 hrun
            have hT : timeDriven al.tx = true := by
              rcases r2 with r2 | r2
              · rw [p1.tx] at r2; exact r2
              · rw [q2] at r2; cases r2
            have hl := p1.len
            rw [r1]
            rw [hT] at hpsi
            simp only [Bool.false_eq_true, if_false, if_true] at *
            omega
          · have hl := (p1.strict hne).2
            have : (if timeDriven al2.tx = true then 1 else 0) ≤ 1 := by split <;> omega
            omega
        obtain ⟨al3, e3, p3⟩ := ih al2 hpsi2 p2.inv p2.pend p2.fc
        refine ⟨al3, e3, ⟨p3.inv, p3.pend, p3.fc, Nat.le_trans p3.mule hmu2, ?_, ?_, ?_⟩⟩
        · intro hm
          have := hstrict hm
          have := p3.mule
          omega
        · intro hd
          rcases p3.doneD hd with r | r
          · rcases hdoneD r with r' | r'
            · exact Or.inl r'
            · exact Or.inr (p3.doneM r')
          · exact Or.inr r
        · intro hd; exact p3.doneM (hdoneM hd)
      · rw [if_neg hgo]
        exact ⟨al2, rfl, ⟨p2.inv, p2.pend, p2.fc, hmu2, hstrict, hdoneD, hdoneM⟩⟩

/-- **a whole `process()` call of the abstract machine** succeeds, keeps the invariant, does not increase the
    potential — and decreases it when there is something to do -/
theorem pass_ok (hKc : R ≤ P.kCf) (hKf : R ≤ P.kFc) (h : PInv P R y { al with out := [], done := false })
    (hp : al.pend = false) (hf : al.fc = false) :
    ∃ al', absPass P R al = some al' ∧ PassPost P R y { al with out := [], done := false } al' := by
  unfold absPass
  refine procLoop_ok hKc hKf _ _ ?_ h hp hf
  unfold psi absFuel
  simp only []
  have : (if timeDriven al.tx = true then 1 else 0) ≤ 1 := by split <;> omega
  split <;> omega

end steps

end Isotp.DuplexLive
