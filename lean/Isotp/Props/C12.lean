import Isotp.Proofs.Req
/-
  C12 — every send request terminates exactly once with the right outcome.

  Vocabulary (defined in `Isotp/Proofs/Req.lean`, namespace `Isotp.C12`):
  * `pendingIds s`  : id of the request in transmission (`active`), then the ids queued in `txQueue`;
  * `doneIds s`     : ids of the `Ev.done id ok` events (`SendRequest.complete(ok)`) of the log, oldest first;
  * `accounted s`   : `doneIds s ++ pendingIds s`;
  * `Op`, `step`, `run`, `accepted` : histories of public API calls and the ids `send` accepted in them;
  * `WF s`          : the configuration passed `Params.validate` (`s.cfg.valid`);
  * `Inv s`         : transmit invariant — idle FSM ⇒ no active request; queued requests have an untouched
                      generator; the active request is depleted only while its Single Frame waits in standby;
  * `Good s := WF s ∧ Inv s` : holds initially and after every operation (`good_step`, `good_run`);
  * `Justified s out id` : why a successful completion logged by a `_process_tx` call is legitimate.

  Why `WF` is needed at all: if `_make_tx_msg` raised `ValueError` in the IDLE branch of `_process_tx`,
  `active_send_request` would stay set with `tx_state = IDLE` and the next pass would overwrite (lose) it.
  `makeTxMsg_isSome` shows this cannot happen with validated parameters.
-/
namespace Isotp.C12
open Isotp State

/-! ## 1. Conservation: no request is lost, duplicated or completed twice -/

/-- `_process_rx` moves no request. -/
theorem conserved_processRx (s : State) (m : CanMsg) : accounted (s.processRx m).1 = accounted s :=
  accounted_of_key (processRx_key s m)

theorem conserved_checkTimeoutsRx (s : State) : accounted s.checkTimeoutsRx = accounted s :=
  accounted_of_key (checkTimeoutsRx_key s)

/-- `_process_tx`, all branches (pending FC, Overflow / Wait / CTS Flow Control, N_Bs timeout, the
    "depleted and no standby" line, the queue loop with empty payloads, SF / FF / standby, BadGenerator,
    Consecutive Frames): the list *completed ++ in transmission ++ queued* is unchanged. -/
theorem conserved_processTx (s : State) (h : Idle s) : accounted s.processTx.1 = accounted s :=
  processTx_acc s h

/-- without the hypothesis the statement is false: an active request in an idle FSM is overwritten -/
example : ∃ s : State, accounted s.processTx.1 ≠ accounted s :=
  ⟨{ State.init {} ⟨default, default⟩ with
      active := some { id := 1, size := 1, src := [0] }, txQueue := [{ id := 2, size := 1, src := [0] }] },
   by decide +kernel⟩

theorem conserved_rxLoop (doTx : Bool) (s : State) (st : Stats) (l : List (Nat × CanMsg)) :
    accounted (rxLoop doTx s st l).1 = accounted s :=
  accounted_of_key (rxLoop_key doTx s st l)

theorem conserved_txLoop (f : Nat) (s : State) (n : Nat) (g : Good s) :
    accounted (txLoop f s n).1 = accounted s :=
  (txLoop_keeps f s n g).2

theorem conserved_processLoop (f : Nat) (doRx doTx : Bool) (s : State) (st : Stats) (g : Good s) :
    accounted (processLoop f doRx doTx s st).1 = accounted s :=
  (processLoop_keeps f doRx doTx s st g).2

/-- `process(do_rx, do_tx)` -/
theorem conserved_process (s : State) (doRx doTx : Bool) (g : Good s) :
    accounted (s.process doRx doTx).1 = accounted s :=
  (process_keeps s doRx doTx g).2

/-- `_stop_sending(success)`: the active request, if any, moves from pending to done. -/
theorem conserved_stopSending (s : State) (b : Bool) : accounted (s.stopSending b) = accounted s :=
  stopSending_acc s b

theorem conserved_stopReceiving (s : State) : accounted s.stopReceiving = accounted s := rfl

theorem conserved_recv (s : State) : accounted s.recv.1 = accounted s :=
  accounted_of_key (by unfold recv; split <;> rfl)

theorem conserved_advance (s : State) (dt : Nat) : accounted (s.advance dt) = accounted s := rfl

theorem conserved_pushFrame (s : State) (dt : Nat) (m : CanMsg) : accounted (s.pushFrame dt m) = accounted s := rfl

/-- `reset()` completes the queue first and the active request last: a permutation. -/
theorem conserved_reset (s : State) : (accounted s.reset).Perm (accounted s) := reset_perm s

/-- an accepted `send` (returns normally, or `BlockingSendTimeout` in the model of `send_timeout=0`)
    adds exactly its id -/
theorem send_accepted (s : State) (a : SendArgs) (h : (s.send a).2 ≠ some .ValueError) :
    accounted (s.send a).1 = accounted s ++ [a.id] :=
  send_accepted_acc s a h

/-- a rejected `send` changes nothing -/
theorem send_rejected (s : State) (a : SendArgs) (h : (s.send a).2 = some .ValueError) : (s.send a).1 = s := by
  rcases send_cases s a with ⟨-, h2⟩ | ⟨h1, -, -⟩
  · exact h2
  · rw [h] at h1; split at h1 <;> simp at h1

/-- `Good` is inductive: true of a new layer with validated parameters, kept by every API call. -/
theorem good_init (c : Cfg) (a : Addr) (hc : c.valid = true) : Good (State.init c a) := init_good c a hc

theorem good_step (s : State) (op : Op) (g : Good s) : Good (step s op) := step_good s op g

theorem good_run (s : State) (ops : List Op) (g : Good s) : Good (run s ops) := run_good s ops g

/-- conservation along any history -/
theorem conserved_run (s : State) (ops : List Op) (g : Good s) :
    (accounted (run s ops)).Perm (accounted s ++ accepted s ops) :=
  run_accounted s ops g

/-- **Exactly once.** Any history of API calls on a new layer, the ids given to accepted `send` calls
    being pairwise distinct: completed + pending ids are exactly the accepted ids; no id is completed
    twice; an accepted id is either still pending (and not completed) or completed exactly once (and no
    longer pending); nothing else is ever completed. -/
theorem exactly_once (c : Cfg) (a : Addr) (hc : c.valid = true) (ops : List Op)
    (hd : (accepted (State.init c a) ops).Nodup) :
    let s := run (State.init c a) ops
    (accounted s).Perm (accepted (State.init c a) ops) ∧
    (doneIds s).Nodup ∧ (pendingIds s).Nodup ∧
    (∀ id ∈ accepted (State.init c a) ops,
      (id ∈ pendingIds s ∧ id ∉ doneIds s) ∨ (id ∉ pendingIds s ∧ (doneIds s).count id = 1)) ∧
    (∀ id ∈ doneIds s, id ∈ accepted (State.init c a) ops) := by
  intro s
  have hp : (accounted s).Perm (accepted (State.init c a) ops) := run_init_accounted c a hc ops
  have hn : (accounted s).Nodup := hp.nodup_iff.2 hd
  have hn' := hn
  unfold accounted at hn'
  rw [List.nodup_append] at hn'
  obtain ⟨h1, h2, h3⟩ := hn'
  refine ⟨hp, h1, h2, ?_, ?_⟩
  · intro id hid
    have hmem : id ∈ accounted s := hp.mem_iff.2 hid
    unfold accounted at hmem
    rcases List.mem_append.1 hmem with hm | hm
    · right
      exact ⟨fun hpd => h3 id hm id hpd rfl, by rw [h1.count, if_pos hm]⟩
    · left
      exact ⟨hm, fun hdn => h3 id hdn id hm rfl⟩
  · intro id hid
    exact hp.mem_iff.1 (by unfold accounted; exact List.mem_append_left _ hid)

/-! ## 2. Aborts complete the request with failure -/

/-- `stop_sending()` / `_stop_sending(success)` with a request in transmission -/
theorem abort_stopSending (s : State) (r : Req) (h : s.active = some r) :
    (s.stopSending false).log = .done r.id false :: s.log ∧ (s.stopSending false).active = none ∧
      (s.stopSending false).txState = .idle ∧ (s.stopSending false).txQueue = s.txQueue :=
  stopSending_abort s r false h

/-- `reset()`: every pending request (in transmission or queued) is completed with failure, nothing
    stays pending, and `reset` logs nothing else. -/
theorem abort_reset (s : State) :
    (∀ id ∈ pendingIds s, Ev.done id false ∈ s.reset.log) ∧ pendingIds s.reset = [] ∧
    (∃ evs, s.reset.log = evs ++ s.log ∧ ∀ e, e ∈ evs ↔ ∃ id ∈ pendingIds s, e = .done id false) :=
  ⟨reset_completes s, reset_pending s, resetEvents s, (reset_fields s).1, resetEvents_spec s⟩

/-- `TransportLayer.stop()` (threaded wrapper), on the logic layer -/
theorem abort_stop (t : TL) :
    (∀ id ∈ pendingIds t.core, Ev.done id false ∈ t.stop.1.core.log) ∧ pendingIds t.stop.1.core = [] ∧
    (∃ evs, t.stop.1.core.log = evs ++ t.core.log ∧ ∀ e, e ∈ evs ↔ ∃ id ∈ pendingIds t.core, e = .done id false) :=
  ⟨fun id h => (stop_completes t id h).1, by rw [stop_core]; split <;> exact reset_pending _,
   resetEvents t.core, stop_log t, resetEvents_spec t.core⟩

/-- Flow Control *Overflow* -/
theorem abort_overflow (s : State) (r : Req) (f : FcFrame) (hp : s.pendingFc = false)
    (hf : s.lastFc = some f) (h2 : f.status = 2) (ha : s.active = some r) :
    s.processTx.1.log = .err s.now .Overflow :: .done r.id false :: s.log ∧ s.processTx.1.active = none ∧
      s.processTx.1.txState = .idle ∧ s.processTx.2.1 = none :=
  overflow_aborts s r f hp hf h2 ha

/-- N_Bs timeout -/
theorem abort_fcTimeout (s : State) (r : Req) (hp : s.pendingFc = false) (hf : s.lastFc = none)
    (ht : s.timerFc.timedOut s.now = true) (ha : s.active = some r) :
    Ev.done r.id false ∈ s.processTx.1.log ∧ Ev.err s.now .FlowControlTimeout ∈ s.processTx.1.log :=
  fcTimeout_aborts s r hp hf ht ha

/-- `MaximumWaitFrameReachedError` -/
theorem abort_maxWaitFrame (s : State) (r : Req) (f : FcFrame) (hp : s.pendingFc = false)
    (hf : s.lastFc = some f) (h1 : f.status = 1) (hst : s.txState ≠ .idle)
    (ht : s.timerFc.timedOut s.now = false) (hw0 : s.cfg.wftmax ≠ 0) (hw : s.wftCnt ≥ s.cfg.wftmax)
    (ha : s.active = some r) :
    Ev.done r.id false ∈ s.processTx.1.log ∧ Ev.err s.now .MaximumWaitFrameReached ∈ s.processTx.1.log :=
  maxWaitFrame_aborts s r f hp hf h1 hst ht hw0 hw ha

/-- `BadGeneratorError` when the Single / First Frame is built (`startTx` is the IDLE branch of
    `_process_tx` after the request was dequeued) -/
theorem abort_badGenerator_start (s : State) (r : Req) (allowed : Nat) (ha : s.active = some r)
    (hbad : (r.consume (if r.size + sfOff s r + s.txPrefixLen ≤ s.cfg.txDl then r.size else ffDataLen s r.size) true).2
      = none) :
    Ev.done r.id false ∈ (s.startTx r allowed).1.log ∧ Ev.err s.now .BadGenerator ∈ (s.startTx r allowed).1.log ∧
      (s.startTx r allowed).1.active = none ∧ (s.startTx r allowed).1.txState = .idle ∧
      (s.startTx r allowed).2 = none :=
  badGenerator_start s r allowed ha hbad

/-- `BadGeneratorError` in TRANSMIT_CF: the generator runs dry before the declared size -/
theorem abort_badGenerator_cf (s : State) (allowed : Nat) (r : Req) (rbs : Nat) (g : Good s)
    (hst : s.txState = .transmitCf) (hrbs : s.remoteBs = some rbs) (ha : s.active = some r)
    (ht : s.timerStmin.timedOut s.now = true) (hal : cfLen s r ≤ allowed) (hshort : r.src.length < cfLen s r) :
    Ev.done r.id false ∈ (s.transmitCf allowed).1.log ∧ Ev.err s.now .BadGenerator ∈ (s.transmitCf allowed).1.log ∧
      (s.transmitCf allowed).1.active = none :=
  badGenerator_cf s allowed r rbs g hst hrbs ha ht hal hshort

/-! ## 3. Success is not signalled before the last frame -/

/-- `TxActiveInv`: while a transmission is in progress and no frame waits in standby, the generator of
    the active request is not depleted (there are still bytes to send). -/
theorem txActiveInv (s : State) (g : Good s) (r : Req) (ha : s.active = some r) (_hst : s.txState ≠ .idle)
    (hsb : s.standby = none) : r.depleted = false := by
  cases hd : r.depleted
  · rfl
  · have := (g.2.act r ha hd).2; simp [hsb] at this

/-- hence the line "active request depleted and nothing in standby → `_stop_sending(success=True)`" of
    `_process_tx` is dead code on reachable states (its guard is false)… -/
theorem depleted_line_dead (s : State) (g : Good s) :
    (s.txState ≠ .idle && (match s.active with | some r => r.depleted | none => false) && s.standby.isNone) = false := by
  cases ha : s.active with
  | none => simp
  | some r =>
    by_cases hst : s.txState = .idle
    · simp [hst]
    · cases hsb : s.standby with
      | none => simp [txActiveInv s g r ha hst hsb]
      | some m => simp

/-- …while on a state violating the invariant it does signal success although no frame is output
    (request 7 is "in transmission", depleted, FSM in WAIT_FC). -/
example :
    let s : State := { State.init {} ⟨default, default⟩ with
      txState := .waitFc, active := some { id := 7, size := 3, src := [], consumed := 3 } }
    s.processTx.1.log = [Ev.done 7 true] ∧ s.processTx.2.1 = none := by decide +kernel

/-- **success_late.** In a `_process_tx` call entered in a reachable state (no exception pending — the
    model stops at the first Python exception), every new `complete(True)` is justified
    (`Justified`): the payload is empty, or the frame this very call returns is the request's last frame
    (its Single Frame — fresh or released from standby — or the Consecutive Frame carrying all the
    remaining bytes). So success is never logged in a pass before the one that outputs the last frame. -/
theorem success_late (s : State) (g : Good s) (hx : s.exc = none) :
    ∃ evs, s.processTx.1.log = evs ++ s.log ∧
      ∀ id, Ev.done id true ∈ evs → Justified s s.processTx.2.1 id :=
  processTx_success_late s g hx

/-- no other operation of the layer logs a completion with `success = True`: the receive side logs no
    completion at all … -/
theorem rx_logs_no_completion (doTx : Bool) (s : State) (st : Stats) (l : List (Nat × CanMsg)) :
    doneIds (rxLoop doTx s st l).1 = doneIds s := by
  rw [doneIds_eq, doneIds_eq]; exact (key_eq (rxLoop_key doTx s st l)).1

/-- … and `stop_sending()` / `reset()` only log failures. -/
theorem aborts_log_no_success (s : State) :
    succL (s.stopSending false).log = succL s.log ∧ succL s.reset.log = succL s.log := by
  constructor
  · simpa using (stopSending_fields s false).2.2.2.2.2.2.2.2.1
  · rw [(reset_fields s).1, succL_append]
    have : succL (resetEvents s) = [] := by
      apply List.eq_nil_iff_forall_not_mem.2
      intro id hid
      obtain ⟨id', -, h⟩ := (resetEvents_spec s _).1 ((mem_succL id _).1 hid)
      cases h
    rw [this]; rfl

/-! ## 4. Blocking send: the outcome the caller waits for is well defined -/

/-- with `blocking_send`, an accepted `send` enqueues the request and (model of `send_timeout = 0`)
    raises `BlockingSendTimeout`; the caller's request is pending -/
theorem blocking_send (s : State) (a : SendArgs) (hb : s.cfg.blocking = true) :
    ((s.send a).2 = some .ValueError ∧ (s.send a).1 = s) ∨
    ((s.send a).2 = some .BlockingSendTimeout ∧ a.id ∈ pendingIds (s.send a).1) := by
  rcases send_cases s a with h | ⟨h1, -, h3⟩
  · exact .inl h
  · right
    refine ⟨by simpa [hb] using h1, ?_⟩
    rw [h3, mem_pendingIds]
    exact .inr ⟨mkReq s a, by simp, rfl⟩

/-- **The outcome is unique.** With distinct ids, a request has at most one outcome in the log: the
    `success` flag the blocked caller reads after `complete_event` is set ("returns normally" vs
    `BlockingSendFailure`) is well defined. -/
theorem outcome_unique (c : Cfg) (a : Addr) (hc : c.valid = true) (ops : List Op)
    (hd : (accepted (State.init c a) ops).Nodup) (id : Nat) (b b' : Bool)
    (h1 : Ev.done id b ∈ (run (State.init c a) ops).log) (h2 : Ev.done id b' ∈ (run (State.init c a) ops).log) :
    b = b' := by
  have := (exactly_once c a hc ops hd).2.1
  rw [doneIds_eq] at this
  exact outcome_unique_of_nodup _ this id b b' h1 h2

/-- **No caller stays blocked.** Once the layer no longer holds an accepted request (neither queued nor
    in transmission), its completion event has been set, with exactly one outcome. -/
theorem not_pending_done (c : Cfg) (a : Addr) (hc : c.valid = true) (ops : List Op)
    (hd : (accepted (State.init c a) ops).Nodup) (id : Nat) (hid : id ∈ accepted (State.init c a) ops)
    (hnp : id ∉ pendingIds (run (State.init c a) ops)) :
    ∃ b, Ev.done id b ∈ (run (State.init c a) ops).log ∧
      ∀ b', Ev.done id b' ∈ (run (State.init c a) ops).log → b' = b := by
  rcases (exactly_once c a hc ops hd).2.2.2.1 id hid with ⟨h, -⟩ | ⟨-, hcnt⟩
  · exact absurd h hnp
  · have hm : id ∈ doneIds (run (State.init c a) ops) := List.count_pos_iff.1 (by omega)
    obtain ⟨b, hb⟩ := (mem_doneIds _ id).1 hm
    exact ⟨b, hb, fun b' hb' => outcome_unique c a hc ops hd id b' b hb' hb⟩

/-! ## Non-vacuity: concrete layers and histories -/

/-- normal 11-bit addressing, tx 0x123 / rx 0x456 -/
def exAddr : Addr :=
  let h : Half := { mode := .n11, txid := some 0x123, rxid := some 0x456, ta := none, sa := none, ae := none,
                    physId := 0, funcId := 0, rxOnly := false, txOnly := false }
  { tx := h, rx := h }

def exCfg : Cfg := {}
def exInit : State := State.init exCfg exAddr
def bytes (n : Nat) : Bytes := (List.range n).map u8
def fcFrame (status : Nat) : CanMsg := { id := 0x456, ext := false, data := [u8 (0x30 + status), 0, 0] }

example : exCfg.valid = true := by decide
example : Good exInit := good_init _ _ (by decide)

/-- three sends (a Single Frame, an empty payload, a multi-frame), a rejected send, a `process`,
    one more send, a `reset` -/
def exOps : List Op :=
  [ .send { id := 1, size := 3, src := bytes 3 },
    .send { id := 2, size := 0, src := [] },
    .send { id := 3, size := 20, src := bytes 20 },
    .send { id := 4, size := -1, src := [] },
    .process true true,
    .send { id := 5, size := 2, src := bytes 2 },
    .reset ]

example : accepted exInit exOps = [1, 2, 3, 5] := by decide +kernel
example : (accepted exInit exOps).Nodup := by decide +kernel
-- after the `process`: 1 (SF) and 2 (empty) succeeded, 3 waits for a Flow Control
example : doneIds (run exInit (exOps.take 5)) = [1, 2] ∧ pendingIds (run exInit (exOps.take 5)) = [3] := by
  decide +kernel
-- after the `reset`: the queued 5 fails first, then the active 3 (a permutation of the accepted ids)
example : (run exInit exOps).log.filterMap (fun | .done i b => some (i, b) | _ => none) =
    [(3, false), (5, false), (2, true), (1, true)] := by decide +kernel
example : accounted (run exInit exOps) = [1, 2, 5, 3] := by decide +kernel
example : Good (run exInit exOps) := good_run _ _ (good_init _ _ (by decide))

/-- multi-frame request, First Frame sent, waiting for the Flow Control -/
def exWaitFc : State := run exInit [.send { id := 3, size := 20, src := bytes 20 }, .process true true]

example : exWaitFc.txState = .waitFc ∧ exWaitFc.active.map (·.id) = some 3 ∧ exWaitFc.pendingFc = false ∧
    exWaitFc.lastFc = none ∧ exWaitFc.exc = none := by decide +kernel
example : Idle exWaitFc := (good_run _ _ (good_init _ _ (by decide))).2.idle

-- Overflow Flow Control: request 3 fails (hypotheses of `abort_overflow`)
example : (run exWaitFc [.frame 0 (fcFrame 2), .process true true]).log.take 2 =
    [Ev.err 0 .Overflow, Ev.done 3 false] := by decide +kernel
example : let s : State := { exWaitFc with lastFc := some ⟨2, 0, 0⟩ }
    s.pendingFc = false ∧ s.lastFc = some ⟨2, 0, 0⟩ ∧ s.active.map (·.id) = some 3 ∧
    s.processTx.1.log.take 2 = [Ev.err 0 .Overflow, Ev.done 3 false] := by decide +kernel

-- N_Bs timeout (hypotheses of `abort_fcTimeout`)
example : let s := exWaitFc.advance 2000000000
    s.pendingFc = false ∧ s.lastFc = none ∧ s.timerFc.timedOut s.now = true ∧ s.active.map (·.id) = some 3 ∧
    Ev.done 3 false ∈ s.processTx.1.log := by decide +kernel

-- too many Wait frames (hypotheses of `abort_maxWaitFrame`)
example : let s : State := { exWaitFc with cfg := { exCfg with wftmax := 1 }, wftCnt := 1, lastFc := some ⟨1, 0, 0⟩ }
    s.pendingFc = false ∧ s.txState ≠ .idle ∧ s.timerFc.timedOut s.now = false ∧ s.cfg.wftmax ≠ 0 ∧
    s.wftCnt ≥ s.cfg.wftmax ∧ s.active.map (·.id) = some 3 ∧ Ev.done 3 false ∈ s.processTx.1.log := by
  decide +kernel

-- BadGenerator at start: 20 bytes declared, generator yields 2 (hypothesis of `abort_badGenerator_start`)
example : (run exInit [.send { id := 6, size := 20, src := bytes 2 }, .process true true]).log.filterMap
    (fun | .done i b => some (i, b) | _ => none) = [(6, false)] := by decide +kernel
-- BadGenerator in TRANSMIT_CF: 20 bytes declared, generator yields 8
example : (run exInit [.send { id := 6, size := 20, src := bytes 8 }, .process true true,
    .frame 0 (fcFrame 0), .process true true]).log.filterMap
    (fun | .done i b => some (i, b) | _ => none) = [(6, false)] := by decide +kernel

/-- the complete transfer: FF, Flow Control (CTS), two Consecutive Frames -/
def exDone : State := run exWaitFc [.frame 0 (fcFrame 0), .process true true]

-- success is logged in the pass that returns the last Consecutive Frame (sequence number 2), and
-- the frame reaches `txfn` right after
example : exDone.log.take 3 =
    [Ev.tx 0 { id := 0x123, ext := false, data := [0x22, 13, 14, 15, 16, 17, 18, 19], dlc := 8 },
     Ev.done 3 true,
     Ev.tx 0 { id := 0x123, ext := false, data := [0x21, 6, 7, 8, 9, 10, 11, 12], dlc := 8 }] := by decide +kernel
example : exDone.exc = none ∧ pendingIds exDone = [] := by decide +kernel
-- `stop_sending()` during the transfer (hypothesis of `abort_stopSending`)
example : (run exWaitFc [.stopSending]).log.head? = some (Ev.done 3 false) := by decide +kernel

-- `TransportLayer.stop()` with one request in transmission and one queued
example : let t : TL := { core := run exWaitFc [.send { id := 8, size := 1, src := bytes 1 }], started := true,
                          mainThread := .running, relayThread := .running }
    pendingIds t.core = [3, 8] ∧
    t.stop.1.core.log.take 2 = [Ev.done 3 false, Ev.done 8 false] ∧ pendingIds t.stop.1.core = [] := by
  decide +kernel

-- blocking send: `BlockingSendTimeout`, request queued
example : let s := State.init { exCfg with blocking := true } exAddr
    (s.send { id := 1, size := 3, src := bytes 3 }).2 = some .BlockingSendTimeout ∧
    pendingIds (s.send { id := 1, size := 3, src := bytes 3 }).1 = [1] := by decide +kernel

-- without distinct ids the outcome is not unique (the hypothesis of `outcome_unique` is needed)
example : let s := run exInit [.send { id := 1, size := 1, src := bytes 1 }, .process true true,
                               .send { id := 1, size := 1, src := bytes 1 }, .reset]
    Ev.done 1 true ∈ s.log ∧ Ev.done 1 false ∈ s.log := by decide +kernel

end Isotp.C12

#print axioms Isotp.C12.conserved_processRx
#print axioms Isotp.C12.conserved_checkTimeoutsRx
#print axioms Isotp.C12.conserved_processTx
#print axioms Isotp.C12.conserved_rxLoop
#print axioms Isotp.C12.conserved_txLoop
#print axioms Isotp.C12.conserved_processLoop
#print axioms Isotp.C12.conserved_process
#print axioms Isotp.C12.conserved_stopSending
#print axioms Isotp.C12.conserved_stopReceiving
#print axioms Isotp.C12.conserved_recv
#print axioms Isotp.C12.conserved_advance
#print axioms Isotp.C12.conserved_pushFrame
#print axioms Isotp.C12.conserved_reset
#print axioms Isotp.C12.send_accepted
#print axioms Isotp.C12.send_rejected
#print axioms Isotp.C12.good_init
#print axioms Isotp.C12.good_step
#print axioms Isotp.C12.good_run
#print axioms Isotp.C12.conserved_run
#print axioms Isotp.C12.exactly_once
#print axioms Isotp.C12.abort_stopSending
#print axioms Isotp.C12.abort_reset
#print axioms Isotp.C12.abort_stop
#print axioms Isotp.C12.abort_overflow
#print axioms Isotp.C12.abort_fcTimeout
#print axioms Isotp.C12.abort_maxWaitFrame
#print axioms Isotp.C12.abort_badGenerator_start
#print axioms Isotp.C12.abort_badGenerator_cf
#print axioms Isotp.C12.txActiveInv
#print axioms Isotp.C12.depleted_line_dead
#print axioms Isotp.C12.success_late
#print axioms Isotp.C12.rx_logs_no_completion
#print axioms Isotp.C12.aborts_log_no_success
#print axioms Isotp.C12.blocking_send
#print axioms Isotp.C12.outcome_unique
#print axioms Isotp.C12.not_pending_done
