import Isotp.PyAgree.SockOpts
import Isotp.PyAgree.PyCan
import Isotp.Proofs.Sock
/-!
  Source agreement for the constructors / readers.
-/
set_option linter.unusedSimpArgs false
set_option linter.unusedVariables false

namespace Isotp.PyAgree.Ctors
open Isotp Isotp.Py Isotp.PyAgree
open Isotp.Sock hiding bind close
open Isotp.PyAgree.SockOpts Isotp.PyAgree.PyCan

/-! ## 0. infrastructure -/

theorem nb (fn : String) (h : fn ∉ builtinNames) (vs : List PV) : evalBuiltin fn vs = none := evalBuiltin_none fn vs h

/-- bind the targets to the elements, left to right -/
def bindAll : List String → List Sc → Env → Env
  | t :: ts, x :: xs, env => bindAll ts xs (env.set t (.sc x))
  | _, _, env => env

theorem bindAll_other (ts : List String) (xs : List Sc) (env : Env) (k : String) (h : k ∉ ts) : bindAll ts xs env k = env k := by
  induction ts generalizing xs env with
  | nil => cases xs <;> rfl
  | cons t ts ih =>
    cases xs with
    | nil => rfl
    | cons x xs =>
      simp only [List.mem_cons, not_or] at h
      rw [bindAll, ih _ _ h.2, set_get, if_neg h.1]

/-- `a, b, ... = v` (the dumper's procedure `"a,b,...:=__unpack__"`): `v` must be a sequence of exactly as many elements as there are
    targets (`ValueError: too many / not enough values to unpack` otherwise); then every target is bound, in order -/
def unpackProc (targets : List String) : List PV → Env → Except PErr Env
  | [.list xs], env => if xs.length = targets.length then .ok (bindAll targets xs env) else .error (.exc .ValueError)
  | [_], _ => .error (.exc .TypeError)
  | _, _ => .error (.unsupported "__unpack__: arity")

/-- the name the dumper gives the unpacking of a tuple into `targets` -/
def unpackName (targets : List String) : String := String.intercalate "," targets ++ ":=__unpack__"

/-! ## 1. `assert_is_socket`, `GeneralOpts.read`, `FlowControlOpts.read`, `LinkLayerOpts.read` (isotp/tpsock/opts.py) -/

/-- `isinstance(x, socket_module.socket)`: a predicate `isSock` on values -/
def isinstM (isSock : PV → Bool) : Meths where
  fn n args _ :=
    match n, args with
    | "isinstance_socket", [v] => .ok (pbool (isSock v))
    | n, _ => .error (.unsupported ("call " ++ n))
  proc n _ _ := .error (.unsupported ("call " ++ n))

/-- **`assert_is_socket(s)`**: `ValueError` for anything that is not a socket, nothing otherwise -/
theorem assert_is_socket_agrees (isSock : PV → Bool) (env : Env) (v : PV) (h : env "s" = some v) :
    runFn (isinstM isSock) env Src.module_assert_is_socket =
      if isSock v then .ok (pnone, env) else .error (.exc .ValueError) := by
  cases hv : isSock v <;>
    simp [runFn, Src.module_assert_is_socket, execBlock, execStmt, eval, evalArgs, h, nb "isinstance_socket" (by decide), isinstM, hv]

/-- the callee `assert_is_socket(v)` of the readers: ITS OWN SOURCE, run on a fresh frame holding the argument -/
def assertIsSocket (isSock : PV → Bool) : List PV → Env → Except PErr Env
  | [v], env => (runFn (isinstM isSock) (fun k => if k = "s" then some v else none) Src.module_assert_is_socket).map (fun _ => env)
  | _, _ => .error (.exc .TypeError)

theorem assertIsSocket_eq (isSock : PV → Bool) (v : PV) (env : Env) :
    assertIsSocket isSock [v] env = if isSock v then .ok env else .error (.exc .ValueError) := by
  rw [assertIsSocket, assert_is_socket_agrees isSock _ v (by simp)]
  cases isSock v <;> rfl

/-- `struct.unpack` on the formats the option structs use: the INVERSE of `SockOpts.structPack` (`structUnpack_pack_*` below): the buffer
    must have exactly the size of the format (`struct.error` otherwise), and the fields are read in order, little-endian, unaligned -/
def structUnpack : List PV → Except PErr PV
  | [.str fmt, .bytes d] =>
    if fmt = "=LLBBBB" then
      if d.length = 12 then
        .ok (.list [.py (.int (rd32 d 0)), .py (.int (rd32 d 4)), .py (.int (byteAt d 8)), .py (.int (byteAt d 9)),
          .py (.int (byteAt d 10)), .py (.int (byteAt d 11))])
      else .error (.unsupported "struct.error")
    else if fmt = "=BBB" then
      if d.length = 3 then .ok (.list [.py (.int (byteAt d 0)), .py (.int (byteAt d 1)), .py (.int (byteAt d 2))])
      else .error (.unsupported "struct.error")
    else if fmt = "=L" then
      if d.length = 4 then .ok (.list [.py (.int (rd32 d 0))]) else .error (.unsupported "struct.error")
    else .error (.unsupported "struct.unpack: format")
  | _ => .error (.unsupported "struct.unpack: arguments")

theorem length_layoutOpts (o : KOpts) : (layoutOpts o).length = 12 := by simp [layoutOpts, le32]
theorem length_layoutFc (o : KFc) : (layoutFc o).length = 3 := rfl
theorem length_layoutLl (o : KLl) : (layoutLl o).length = 3 := rfl

theorem structUnpack_opts (d : Bytes) (h : d.length = 12) :
    structUnpack [.str "=LLBBBB", .bytes d] =
      .ok (.list [.py (.int (parseOpts d).flags), .py (.int (parseOpts d).frameTxtime), .py (.int (parseOpts d).extAddress),
        .py (.int (parseOpts d).txpad), .py (.int (parseOpts d).rxpad), .py (.int (parseOpts d).rxExtAddress)]) := by
  simp [structUnpack, h, parseOpts]

theorem structUnpack_fc (d : Bytes) (h : d.length = 3) :
    structUnpack [.str "=BBB", .bytes d] =
      .ok (.list [.py (.int (parseFc d).bs), .py (.int (parseFc d).stmin), .py (.int (parseFc d).wftmax)]) := by
  simp [structUnpack, h, parseFc]

theorem structUnpack_ll (d : Bytes) (h : d.length = 3) :
    structUnpack [.str "=BBB", .bytes d] =
      .ok (.list [.py (.int (parseLl d).mtu), .py (.int (parseLl d).txDl), .py (.int (parseLl d).txFlags)]) := by
  simp [structUnpack, h, parseLl]

theorem packArg_some (v : PV) (hi : Int) (n : Nat) (h : packArg v hi = some n) : asInt v = some (n : Int) ∧ (n : Int) ≤ hi := by
  unfold packArg at h
  split at h
  · rename_i i hi'
    split at h
    · rename_i hb
      injection h with h
      subst h
      rw [hi', Int.toNat_of_nonneg hb.1]
      exact ⟨rfl, hb.2⟩
    · cases h
  · cases h

/-- **`struct.unpack` undoes `struct.pack`** (`"=LLBBBB"`): whatever `SockOpts.structPack` accepts (six integers, `bool` counts, each in
    the range of its field) comes back, field for field, in the same order -/
theorem structUnpack_pack_LLBBBB (a b c d e f : PV) (r : PV) (h : structPack [.str "=LLBBBB", a, b, c, d, e, f] = .ok r) :
    ∃ n1 n2 n3 n4 n5 n6 : Nat, asInt a = some (n1 : Int) ∧ asInt b = some (n2 : Int) ∧ asInt c = some (n3 : Int) ∧
      asInt d = some (n4 : Int) ∧ asInt e = some (n5 : Int) ∧ asInt f = some (n6 : Int) ∧
      structUnpack [.str "=LLBBBB", r] =
        .ok (.list [.py (.int n1), .py (.int n2), .py (.int n3), .py (.int n4), .py (.int n5), .py (.int n6)]) := by
  simp only [structPack, if_true] at h
  split at h
  · rename_i n1 n2 n3 n4 n5 n6 h1 h2 h3 h4 h5 h6
    obtain ⟨a1, b1⟩ := packArg_some _ _ _ h1
    obtain ⟨a2, b2⟩ := packArg_some _ _ _ h2
    obtain ⟨a3, b3⟩ := packArg_some _ _ _ h3
    obtain ⟨a4, b4⟩ := packArg_some _ _ _ h4
    obtain ⟨a5, b5⟩ := packArg_some _ _ _ h5
    obtain ⟨a6, b6⟩ := packArg_some _ _ _ h6
    injection h with h
    subst h
    refine ⟨n1, n2, n3, n4, n5, n6, a1, a2, a3, a4, a5, a6, ?_⟩
    rw [structUnpack_opts _ (length_layoutOpts _),
      parse_layout_opts _ ⟨by show n1 < 2^32; omega, by show n2 < 2^32; omega, by show n3 < 256; omega, by show n4 < 256; omega,
        by show n5 < 256; omega, by show n6 < 256; omega⟩]
  · cases h

/-- the same for `"=BBB"` (`FlowControlOpts`, `LinkLayerOpts`) -/
theorem structUnpack_pack_BBB (a b c : PV) (r : PV) (h : structPack [.str "=BBB", a, b, c] = .ok r) :
    ∃ n1 n2 n3 : Nat, asInt a = some (n1 : Int) ∧ asInt b = some (n2 : Int) ∧ asInt c = some (n3 : Int) ∧
      structUnpack [.str "=BBB", r] = .ok (.list [.py (.int n1), .py (.int n2), .py (.int n3)]) := by
  simp only [structPack, if_true] at h
  split at h
  · rename_i n1 n2 n3 h1 h2 h3
    obtain ⟨a1, b1⟩ := packArg_some _ _ _ h1
    obtain ⟨a2, b2⟩ := packArg_some _ _ _ h2
    obtain ⟨a3, b3⟩ := packArg_some _ _ _ h3
    injection h with h
    subst h
    refine ⟨n1, n2, n3, a1, a2, a3, ?_⟩
    have := parse_layout_fc ⟨n1, n2, n3⟩ ⟨by show n1 < 256; omega, by show n2 < 256; omega, by show n3 < 256; omega⟩
    have e : ([u8 n1, u8 n2, u8 n3] : Bytes) = layoutFc ⟨n1, n2, n3⟩ := rfl
    rw [e, structUnpack_fc _ rfl, this]
  · cases h

/-- the same for `"=L"` (`tx_stmin`) -/
theorem structUnpack_pack_L (a : PV) (r : PV) (h : structPack [.str "=L", a] = .ok r) :
    ∃ n : Nat, asInt a = some (n : Int) ∧ structUnpack [.str "=L", r] = .ok (.list [.py (.int n)]) := by
  simp only [structPack, if_true] at h
  split at h
  · rename_i n h1
    obtain ⟨a1, b1⟩ := packArg_some _ _ _ h1
    injection h with h
    subst h
    refine ⟨n, a1, ?_⟩
    have hl : (le32 n).length = 4 := rfl
    simp [structUnpack, hl, rd32_le32 n (by omega)]
  · cases h

/-- the attributes the three readers bind, in the order of the tuple on the left of `= struct.unpack(...)` -/
def genTargets : List String := ["o.optflag", "o.frame_txtime", "o.ext_address", "o.txpad", "o.rxpad", "o.rx_ext_address"]
def fcTargets : List String := ["o.bs", "o.stmin", "o.wftmax"]
def llTargets : List String := ["o.mtu", "o.tx_dl", "o.tx_flags"]

/-- the names of the three unpacking procedures in the dump ARE the comma-separated target lists -/
theorem unpackName_gen :
    unpackName genTargets = "o.optflag,o.frame_txtime,o.ext_address,o.txpad,o.rxpad,o.rx_ext_address:=__unpack__" := by decide
theorem unpackName_fc : unpackName fcTargets = "o.bs,o.stmin,o.wftmax:=__unpack__" := by decide
theorem unpackName_ll : unpackName llTargets = "o.mtu,o.tx_dl,o.tx_flags:=__unpack__" := by decide

/-- the world of the readers: `cls()` is a fresh object `.meth "o"`; `s.getsockopt` is ANY function `G` of its argument list;
    `struct.unpack` is `structUnpack`; `assert_is_socket` is its own source (`assertIsSocket`); the unpacking of the tuple is `unpackProc`
    on the targets its name lists -/
def readM (isSock : PV → Bool) (G : List PV → Except PErr PV) : Meths where
  fn n args _ :=
    if n = "cls" then (match args with | [] => .ok (.meth "o") | _ => .error (.exc .TypeError))
    else if n = "s.getsockopt" then G args
    else if n = "struct.unpack" then structUnpack args
    else .error (.unsupported ("call " ++ n))
  proc n args env :=
    if n = "assert_is_socket" then assertIsSocket isSock args env
    else if n = unpackName genTargets then unpackProc genTargets args env
    else if n = unpackName fcTargets then unpackProc fcTargets args env
    else if n = unpackName llTargets then unpackProc llTargets args env
    else .error (.unsupported ("call " ++ n))

section readMLookups
variable (isSock : PV → Bool) (G : List PV → Except PErr PV) (vs : List PV) (env : Env)
theorem readM_cls : (readM isSock G).fn "cls" [] env = .ok (.meth "o") := by simp [readM]
theorem readM_gso : (readM isSock G).fn "s.getsockopt" vs env = G vs := by simp [readM]
theorem readM_unpack : (readM isSock G).fn "struct.unpack" vs env = structUnpack vs := by simp [readM]
theorem readM_assert : (readM isSock G).proc "assert_is_socket" vs env = assertIsSocket isSock vs env := by simp [readM]
theorem readM_gen : (readM isSock G).proc (unpackName genTargets) vs env = unpackProc genTargets vs env := by
  simp [readM, unpackName_gen]
theorem readM_fc : (readM isSock G).proc (unpackName fcTargets) vs env = unpackProc fcTargets vs env := by
  simp [readM, unpackName_gen, unpackName_fc]
theorem readM_ll : (readM isSock G).proc (unpackName llTargets) vs env = unpackProc llTargets vs env := by
  simp [readM, unpackName_gen, unpackName_fc, unpackName_ll]
end readMLookups

/-- what a reader's frame must hold: the argument `s`, the module constants (`SOL_CAN_ISOTP = SOL_CAN_BASE + CAN_ISOTP` is computed at
    import time: `Sock.solCanIsotp`, as in SockOpts.lean; the option number is the dumped module constant), and the class attribute
    `struct_size` (`4 + 4 + 1 + 1 + 1 + 1` resp. `3` in the class bodies) -/
structure ReadFrame (env : Env) (v : PV) (optName : String) (size : Nat) : Prop where
  s : env "s" = some v
  sol : env "SOL_CAN_ISOTP" = some (pint (solCanIsotp : Nat))
  opt : env optName = constEnv optName
  size : env "cls.struct_size" = some (pint (size : Nat))

/-- the run of a reader after its prologue, for the result `d` of `getsockopt`: unpack, bind, return the object -/
def readTail (fmt : String) (targets : List String) (G : List PV → Except PErr PV) (optNo size : Nat) (env : Env) :
    Except PErr (PV × Env) := do
  let d ← G [pint (solCanIsotp : Nat), pint (optNo : Nat), pint (size : Nat)]
  let xs ← structUnpack [.str fmt, d]
  let env' ← unpackProc targets [xs] ((env.set "o" (.meth "o")).set "opt" d)
  .ok (.meth "o", env')

theorem unpackProc_o (targets : List String) (h : "o" ∉ targets) (vs : List PV) (env env' : Env)
    (hu : unpackProc targets vs env = .ok env') : env' "o" = env "o" := by
  unfold unpackProc at hu
  split at hu
  · split at hu
    · injection hu with hu; subst hu; exact bindAll_other _ _ _ _ h
    · cases hu
  · cases hu
  · cases hu

/-- the common shape of the three readers -/
def readerBody (optName fmt unpackNm : String) : PBlock :=
  .cons (.expr (.call "assert_is_socket" (.cons (.var "s") .nil)))
  (.cons (.assign "o" (.call "cls" .nil))
  (.cons (.assign "opt" (.call "s.getsockopt" (.cons (.var "SOL_CAN_ISOTP") (.cons (.var optName) (.cons (.var "cls.struct_size") .nil)))))
  (.cons (.expr (.call unpackNm (.cons (.call "struct.unpack" (.cons (.strLit fmt) (.cons (.var "opt") .nil))) .nil)))
  (.cons (.ret (.var "o")) .nil))))

/-- the dumped sources ARE that shape, with these option names, format strings and target lists -/
theorem general_opts_read_src : Src.GeneralOpts_read = readerBody "CAN_ISOTP_OPTS" "=LLBBBB" (unpackName genTargets) := by
  rw [unpackName_gen]; rfl
theorem flow_control_opts_read_src : Src.FlowControlOpts_read = readerBody "CAN_ISOTP_RECV_FC" "=BBB" (unpackName fcTargets) := by
  rw [unpackName_fc]; rfl
theorem link_layer_opts_read_src : Src.LinkLayerOpts_read = readerBody "CAN_ISOTP_LL_OPTS" "=BBB" (unpackName llTargets) := by
  rw [unpackName_ll]; rfl

theorem reader_run (isSock : PV → Bool) (G : List PV → Except PErr PV) (optName fmt : String) (targets : List String)
    (optNo size : Nat) (env : Env) (v : PV)
    (hn : unpackName targets ∉ builtinNames)
    (hp : ∀ vs e, (readM isSock G).proc (unpackName targets) vs e = unpackProc targets vs e)
    (ho : "o" ∉ targets) (hne : optName ≠ "o")
    (h1 : env "s" = some v) (h2 : env "SOL_CAN_ISOTP" = some (pint (solCanIsotp : Nat)))
    (h3 : env optName = some (pint (optNo : Nat))) (h4 : env "cls.struct_size" = some (pint (size : Nat))) :
    runFn (readM isSock G) env (readerBody optName fmt (unpackName targets)) =
      if isSock v then readTail fmt targets G optNo size env else .error (.exc .ValueError) := by
  unfold readerBody
  cases hv : isSock v
  · have s1 : execStmt (readM isSock G) env (.expr (.call "assert_is_socket" (.cons (.var "s") .nil))) = .error (.exc .ValueError) := by
      simp [execStmt, evalArgs, eval, h1, nb "assert_is_socket" (by decide), readM_assert, assertIsSocket_eq, hv]
    simp [runFn, execBlock, s1]
  · have s1 : execStmt (readM isSock G) env (.expr (.call "assert_is_socket" (.cons (.var "s") .nil))) = .ok (.next env) := by
      simp [execStmt, evalArgs, eval, h1, nb "assert_is_socket" (by decide), readM_assert, assertIsSocket_eq, hv]
    have s2 : execStmt (readM isSock G) env (.assign "o" (.call "cls" .nil)) = .ok (.next (env.set "o" (.meth "o"))) := by
      simp [execStmt, evalArgs, eval, nb "cls" (by decide), readM_cls]
    have e3 : eval (readM isSock G) (env.set "o" (.meth "o"))
        (.call "s.getsockopt" (.cons (.var "SOL_CAN_ISOTP") (.cons (.var optName) (.cons (.var "cls.struct_size") .nil)))) =
        G [pint (solCanIsotp : Nat), pint (optNo : Nat), pint (size : Nat)] := by
      simp [eval, evalArgs, set_get, hne, h2, h3, h4, nb "s.getsockopt" (by decide), readM_gso]
    rw [runFn, execBlock_cons_ok _ _ _ _ _ s1, execBlock_cons_ok _ _ _ _ _ s2]
    simp only [if_true, readTail]
    cases hG : G [pint (solCanIsotp : Nat), pint (optNo : Nat), pint (size : Nat)] with
    | error e => simp [execBlock, execStmt, e3, hG]
    | ok d =>
      have s3 : execStmt (readM isSock G) (env.set "o" (.meth "o")) (.assign "opt" (.call "s.getsockopt" (.cons (.var "SOL_CAN_ISOTP")
          (.cons (.var optName) (.cons (.var "cls.struct_size") .nil))))) = .ok (.next ((env.set "o" (.meth "o")).set "opt" d)) := by
        simp [execStmt, e3, hG]
      rw [execBlock_cons_ok _ _ _ _ _ s3]
      have e4 : evalArgs (readM isSock G) ((env.set "o" (.meth "o")).set "opt" d)
          (.cons (.call "struct.unpack" (.cons (.strLit fmt) (.cons (.var "opt") .nil))) .nil) =
          (structUnpack [.str fmt, d] >>= fun xs => .ok [xs]) := by
        simp [eval, evalArgs, set_get, nb "struct.unpack" (by decide), readM_unpack]
      cases hU : structUnpack [.str fmt, d] with
      | error e => simp [execBlock, execStmt, e4, hU]
      | ok xs =>
        cases hP : unpackProc targets [xs] ((env.set "o" (.meth "o")).set "opt" d) with
        | error e => simp [execBlock, execStmt, e4, hU, nb _ hn, hp, hP]
        | ok env' =>
          have hoo : env' "o" = some (.meth "o") := by
            rw [unpackProc_o targets ho _ _ _ hP]; simp [set_get]
          simp [execBlock, execStmt, e4, hU, nb _ hn, hp, hP, eval, hoo]

/-- **`GeneralOpts.read(s)`**: `ValueError` for a non-socket (nothing else happens); otherwise ONE `s.getsockopt(SOL_CAN_ISOTP,
    CAN_ISOTP_OPTS (= 1), cls.struct_size (= 12))`, its result unpacked with `"=LLBBBB"` into `o.optflag, o.frame_txtime, o.ext_address,
    o.txpad, o.rxpad, o.rx_ext_address` of the fresh object `o`, which is returned.  For ANY semantics `G` of `getsockopt`. -/
theorem general_opts_read_run (isSock : PV → Bool) (G : List PV → Except PErr PV) (env : Env) (v : PV)
    (hF : ReadFrame env v "CAN_ISOTP_OPTS" 12) :
    runFn (readM isSock G) env Src.GeneralOpts_read =
      if isSock v then readTail "=LLBBBB" genTargets G optOPTS 12 env else .error (.exc .ValueError) := by
  rw [general_opts_read_src]
  exact reader_run isSock G _ _ genTargets optOPTS 12 env v (by rw [unpackName_gen]; decide) (readM_gen isSock G) (by decide) (by decide)
    hF.s hF.sol hF.opt hF.size

/-- **`FlowControlOpts.read(s)`**: the same with `CAN_ISOTP_RECV_FC (= 2)`, size `3`, format `"=BBB"`, into `o.bs, o.stmin, o.wftmax`
    (the kernel's field order of `struct can_isotp_fc_options`) -/
theorem flow_control_opts_read_run (isSock : PV → Bool) (G : List PV → Except PErr PV) (env : Env) (v : PV)
    (hF : ReadFrame env v "CAN_ISOTP_RECV_FC" 3) :
    runFn (readM isSock G) env Src.FlowControlOpts_read =
      if isSock v then readTail "=BBB" fcTargets G optRECV_FC 3 env else .error (.exc .ValueError) := by
  rw [flow_control_opts_read_src]
  exact reader_run isSock G _ _ fcTargets optRECV_FC 3 env v (by rw [unpackName_fc]; decide) (readM_fc isSock G) (by decide) (by decide)
    hF.s hF.sol hF.opt hF.size

/-- **`LinkLayerOpts.read(s)`**: the same with `CAN_ISOTP_LL_OPTS (= 5)`, size `3`, format `"=BBB"`, into `o.mtu, o.tx_dl, o.tx_flags`
    (the kernel's field order of `struct can_isotp_ll_options`) -/
theorem link_layer_opts_read_run (isSock : PV → Bool) (G : List PV → Except PErr PV) (env : Env) (v : PV)
    (hF : ReadFrame env v "CAN_ISOTP_LL_OPTS" 3) :
    runFn (readM isSock G) env Src.LinkLayerOpts_read =
      if isSock v then readTail "=BBB" llTargets G optLL_OPTS 3 env else .error (.exc .ValueError) := by
  rw [link_layer_opts_read_src]
  exact reader_run isSock G _ _ llTargets optLL_OPTS 3 env v (by rw [unpackName_ll]; decide) (readM_ll isSock G) (by decide) (by decide)
    hF.s hF.sol hF.opt hF.size

/-! ### against the kernel of the model (`Sock.Kernel`) -/

/-- the kernel's `getsockopt(level, optname, buflen)` on an ISO-TP socket: at level `SOL_CAN_ISOTP` the option's struct in the uapi
    layout (`layoutOpts` / `layoutFc` / `layoutLl`, the layouts `Kernel.setsockopt` parses), cut to `buflen` bytes
    (`len = min(len, sizeof(struct))` in `isotp_getsockopt`); any other level / option / argument shape is an error (never a default) -/
def kGetsockopt (k : Kernel) : List PV → Except PErr PV
  | [.sc (.py (.int lvl)), .sc (.py (.int opt)), .sc (.py (.int n))] =>
    if lvl = (solCanIsotp : Nat) ∧ 0 ≤ n then
      if opt = (optOPTS : Nat) then .ok (.bytes ((layoutOpts k.opts).take n.toNat))
      else if opt = (optRECV_FC : Nat) then .ok (.bytes ((layoutFc k.fc).take n.toNat))
      else if opt = (optLL_OPTS : Nat) then .ok (.bytes ((layoutLl k.ll).take n.toNat))
      else .error (.unsupported "getsockopt: option")
    else .error (.unsupported "getsockopt: level / length")
  | _ => .error (.unsupported "getsockopt: argument types")

theorem kGetsockopt_opts (k : Kernel) :
    kGetsockopt k [pint (solCanIsotp : Nat), pint (optOPTS : Nat), pint ((12 : Nat) : Int)] = .ok (.bytes (layoutOpts k.opts)) := by
  have : (layoutOpts k.opts).take 12 = layoutOpts k.opts := List.take_of_length_le (by rw [length_layoutOpts]; omega)
  simp [kGetsockopt, optOPTS, this]
theorem kGetsockopt_fc (k : Kernel) :
    kGetsockopt k [pint (solCanIsotp : Nat), pint (optRECV_FC : Nat), pint ((3 : Nat) : Int)] = .ok (.bytes (layoutFc k.fc)) := by
  simp [kGetsockopt, optOPTS, optRECV_FC, layoutFc]
theorem kGetsockopt_ll (k : Kernel) :
    kGetsockopt k [pint (solCanIsotp : Nat), pint (optLL_OPTS : Nat), pint ((3 : Nat) : Int)] = .ok (.bytes (layoutLl k.ll)) := by
  simp [kGetsockopt, optOPTS, optRECV_FC, optLL_OPTS, layoutLl]

/-- the environment a reader leaves: the object, the raw bytes, and the attributes -/
def afterRead (env : Env) (d : Bytes) (targets : List String) (vals : List Nat) : Env :=
  bindAll targets (vals.map fun n => .py (.int (n : Nat))) ((env.set "o" (.meth "o")).set "opt" (.bytes d))

/-- **`GeneralOpts.read` on a kernel socket of the model**: it returns the object `o` whose six attributes hold
    `parseOpts (layoutOpts s.k.opts)`, field by field (`optflag = flags`, `frame_txtime`, `ext_address`, `txpad`, `rxpad`,
    `rx_ext_address`): the values SockOpts.lean's `genEnv` presents `cls.read(s)` with -/
theorem general_opts_read_agrees (isSock : PV → Bool) (s : Sock) (env : Env) (v : PV) (hF : ReadFrame env v "CAN_ISOTP_OPTS" 12)
    (hv : isSock v = true) :
    runFn (readM isSock (kGetsockopt s.k)) env Src.GeneralOpts_read =
      .ok (.meth "o", afterRead env (layoutOpts s.k.opts) genTargets
        [(parseOpts (layoutOpts s.k.opts)).flags, (parseOpts (layoutOpts s.k.opts)).frameTxtime,
         (parseOpts (layoutOpts s.k.opts)).extAddress, (parseOpts (layoutOpts s.k.opts)).txpad,
         (parseOpts (layoutOpts s.k.opts)).rxpad, (parseOpts (layoutOpts s.k.opts)).rxExtAddress]) := by
  rw [general_opts_read_run isSock _ env v hF, hv, if_pos rfl, readTail, kGetsockopt_opts]
  simp only [ok_bind]
  rw [structUnpack_opts _ (length_layoutOpts _)]
  simp [unpackProc, genTargets, afterRead]

theorem flow_control_opts_read_agrees (isSock : PV → Bool) (s : Sock) (env : Env) (v : PV)
    (hF : ReadFrame env v "CAN_ISOTP_RECV_FC" 3) (hv : isSock v = true) :
    runFn (readM isSock (kGetsockopt s.k)) env Src.FlowControlOpts_read =
      .ok (.meth "o", afterRead env (layoutFc s.k.fc) fcTargets
        [(parseFc (layoutFc s.k.fc)).bs, (parseFc (layoutFc s.k.fc)).stmin, (parseFc (layoutFc s.k.fc)).wftmax]) := by
  rw [flow_control_opts_read_run isSock _ env v hF, hv, if_pos rfl, readTail, kGetsockopt_fc]
  simp only [ok_bind]
  rw [structUnpack_fc _ (length_layoutFc _)]
  simp [unpackProc, fcTargets, afterRead]

theorem link_layer_opts_read_agrees (isSock : PV → Bool) (s : Sock) (env : Env) (v : PV)
    (hF : ReadFrame env v "CAN_ISOTP_LL_OPTS" 3) (hv : isSock v = true) :
    runFn (readM isSock (kGetsockopt s.k)) env Src.LinkLayerOpts_read =
      .ok (.meth "o", afterRead env (layoutLl s.k.ll) llTargets
        [(parseLl (layoutLl s.k.ll)).mtu, (parseLl (layoutLl s.k.ll)).txDl, (parseLl (layoutLl s.k.ll)).txFlags]) := by
  rw [link_layer_opts_read_run isSock _ env v hF, hv, if_pos rfl, readTail, kGetsockopt_ll]
  simp only [ok_bind]
  rw [structUnpack_ll _ (length_layoutLl _)]
  simp [unpackProc, llTargets, afterRead]

/-- a non-socket is refused before anything else happens, whatever `getsockopt` would do -/
theorem read_rejects_non_socket (isSock : PV → Bool) (G : List PV → Except PErr PV) (env : Env) (v : PV)
    (hF : ReadFrame env v "CAN_ISOTP_OPTS" 12) (hv : isSock v = false) :
    runFn (readM isSock G) env Src.GeneralOpts_read = .error (.exc .ValueError) := by
  rw [general_opts_read_run isSock G env v hF, hv]; rfl

/-- the attributes after `GeneralOpts.read`, one by one: exactly the bindings `SockOpts.genEnv` starts `write` with -/
theorem general_opts_read_attrs (s : Sock) (a : OptsArgs) (env : Env) :
    ∀ k ∈ genTargets, afterRead env (layoutOpts s.k.opts) genTargets
        [(parseOpts (layoutOpts s.k.opts)).flags, (parseOpts (layoutOpts s.k.opts)).frameTxtime,
         (parseOpts (layoutOpts s.k.opts)).extAddress, (parseOpts (layoutOpts s.k.opts)).txpad,
         (parseOpts (layoutOpts s.k.opts)).rxpad, (parseOpts (layoutOpts s.k.opts)).rxExtAddress] k = genEnv s a k := by
  intro k hk
  simp only [genTargets, List.mem_cons, List.not_mem_nil, or_false] at hk
  rcases hk with rfl | rfl | rfl | rfl | rfl | rfl <;>
    simp [afterRead, genTargets, bindAll, set_get, genEnv_o_optflag, genEnv_o_frame_txtime, genEnv_o_ext_address, genEnv_o_txpad,
      genEnv_o_rxpad, genEnv_o_rx_ext_address]

theorem flow_control_opts_read_attrs (s : Sock) (x y z : PyVal) (env : Env) :
    ∀ k ∈ fcTargets, afterRead env (layoutFc s.k.fc) fcTargets
        [(parseFc (layoutFc s.k.fc)).bs, (parseFc (layoutFc s.k.fc)).stmin, (parseFc (layoutFc s.k.fc)).wftmax] k = fcEnv s x y z k := by
  intro k hk
  simp only [fcTargets, List.mem_cons, List.not_mem_nil, or_false] at hk
  rcases hk with rfl | rfl | rfl <;> simp [afterRead, fcTargets, bindAll, set_get, fcEnv_o1, fcEnv_o2, fcEnv_o3]

theorem link_layer_opts_read_attrs (s : Sock) (x y z : PyVal) (env : Env) :
    ∀ k ∈ llTargets, afterRead env (layoutLl s.k.ll) llTargets
        [(parseLl (layoutLl s.k.ll)).mtu, (parseLl (layoutLl s.k.ll)).txDl, (parseLl (layoutLl s.k.ll)).txFlags] k = llEnv s x y z k := by
  intro k hk
  simp only [llTargets, List.mem_cons, List.not_mem_nil, or_false] at hk
  rcases hk with rfl | rfl | rfl <;> simp [afterRead, llTargets, bindAll, set_get, llEnv_o1, llEnv_o2, llEnv_o3]

end Isotp.PyAgree.Ctors
