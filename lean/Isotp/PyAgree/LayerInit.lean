import Isotp.PyAgree.LayerSend
import Isotp.PyAgree.LayerTxHelpers
import Isotp.PyAgree.Threaded
import Isotp.PyAgree.LayerWhole
/-!
  Source agreement for the CONSTRUCTORS (namespace `Isotp.PyAgree.Init`).
-/
set_option linter.unusedSimpArgs false
set_option linter.unusedVariables false

namespace Isotp.PyAgree.Init
open Isotp Isotp.Py Isotp.PyAgree.Send

/-! ## 0. infrastructure -/

theorem set_same (env : Env) (k : String) (v : PV) (h : env k = some v) : env.set k v = env := Thr.set_same env k v h

theorem set_eq (env : Env) (k : String) (v : PV) : (env.set k v) k = some v := by simp [Env.set]
theorem set_ne (env : Env) (k k' : String) (v : PV) (h : k' ≠ k) : (env.set k v) k' = env k' := by simp [Env.set, h]

/-- the statement `callee(args)` when the callee is not a builtin -/
theorem exec_proc (M : Meths) (env env' : Env) (fn : String) (args : PArgs) (vs : List PV) (hb : fn ∉ builtinNames)
    (ha : evalArgs M env args = .ok vs) (hp : M.proc fn vs env = .ok env') :
    execStmt M env (.expr (.call fn args)) = .ok (.next env') := by
  simp [execStmt, ha, evalBuiltin_none fn _ hb, hp]

theorem exec_proc_err (M : Meths) (env : Env) (fn : String) (args : PArgs) (vs : List PV) (e : PErr) (hb : fn ∉ builtinNames)
    (ha : evalArgs M env args = .ok vs) (hp : M.proc fn vs env = .error e) :
    execStmt M env (.expr (.call fn args)) = .error e := by
  simp [execStmt, ha, evalBuiltin_none fn _ hb, hp]

theorem eval_call (M : Meths) (env : Env) (fn : String) (args : PArgs) (vs : List PV) (hb : fn ∉ builtinNames)
    (ha : evalArgs M env args = .ok vs) : eval M env (.call fn args) = M.fn fn vs env := by
  simp [eval, ha, evalBuiltin_none fn _ hb]

theorem exec_assign (M : Meths) (env : Env) (k : String) (e : PExpr) (v : PV) (h : eval M env e = .ok v) :
    execStmt M env (.assign k e) = .ok (.next (env.set k v)) := by
  simp [execStmt, h]

theorem exec_assign_err (M : Meths) (env : Env) (k : String) (e : PExpr) (x : PErr) (h : eval M env e = .error x) :
    execStmt M env (.assign k e) = .error x := by
  simp [execStmt, h]

theorem eval_var (M : Meths) (env : Env) (k : String) (v : PV) (h : env k = some v) : eval M env (.var k) = .ok v := by
  simp [eval, h]

theorem args1 (M : Meths) (env : Env) (a : PExpr) (v : PV) (h : eval M env a = .ok v) :
    evalArgs M env (.cons a .nil) = .ok [v] := by simp [evalArgs, h]
theorem args2 (M : Meths) (env : Env) (a b : PExpr) (v w : PV) (h1 : eval M env a = .ok v) (h2 : eval M env b = .ok w) :
    evalArgs M env (.cons a (.cons b .nil)) = .ok [v, w] := by simp [evalArgs, h1, h2]

/-! ## 4a. `Timer.__init__`, `Timer.set_timeout` (isotp/tools.py)

  `set_timeout` stores `int(timeout * 1e9)`: a FLOAT product, dumped as the call `__mul__(timeout, __float__("1000000000.0"))`, followed
  by the builtin `int`, which in the interpreter accepts integers only.  ASSUMPTION on the two float primitives (`setTimeoutM`):
  * `__float__("1000000000.0")` is the number `10^9` (`f1e9`, the exact rational);
  * `__mul__(x, 1e9)` returns the float `x * 1e9` SHOWN AS THE INTEGER `int()` TRUNCATES IT TO (a float with a fractional part has no
    representation the builtin `int` accepts): for an `int` `x = k` this is `k * 10^9` (exact in doubles while `|k| * 10^9 < 2^53`, i.e. for
    every timeout below 104 days: not checked here), for a float `x = n/d` seconds it is `conv n d`, where `conv : Int → Nat → Int` is a
    PARAMETER standing for the double-precision computation `int((n/d) * 1e9)` (outside the subset; by construction of the harness
    `conv ms 1000` is the model's `cfg.tFc` / `cfg.tCf` for the two receive timers, DESIGN 3.1).  Anything else is a `TypeError`.
  This is consistent with MiscTimer.lean, where a `Timer` object shows `self.timeout` as the integer number of nanoseconds
  (`timerEnv`), and where `set_timeout` is an opaque `Meths.proc` (`timer_start_some_agrees`): here that `proc` is given by its source. -/

/-- the float `1e9` -/
def f1e9 : PV := .sc (.py (.float 1000000000 1))

/-- `int(timeout * 1e9)` for a number of seconds: exact for an `int`, the parameter `conv` for a float -/
def nsOf (conv : Int → Nat → Int) : PV → Option Int
  | .sc (.py (.int k)) => some (k * 1000000000)
  | .sc (.py (.float n d)) => some (conv n d)
  | _ => none

/-- the two float primitives of `set_timeout` -/
def setTimeoutM (conv : Int → Nat → Int) : Meths where
  fn := fun name args _ =>
    match name, args with
    | "__float__", [.str "1000000000.0"] => .ok f1e9
    | "__mul__", [v, .sc (.py (.float 1000000000 1))] =>
      (match nsOf conv v with
       | some i => .ok (pint i)
       | none => .error (.exc .TypeError))
    | n, _ => .error (.unsupported ("call " ++ n))
  proc := fun n _ _ => .error (.unsupported ("call " ++ n))

theorem setTimeoutM_float (conv : Int → Nat → Int) (env : Env) :
    (setTimeoutM conv).fn "__float__" [.str "1000000000.0"] env = .ok f1e9 := rfl
theorem setTimeoutM_mul (conv : Int → Nat → Int) (v : PV) (env : Env) :
    (setTimeoutM conv).fn "__mul__" [v, f1e9] env =
      match nsOf conv v with
      | some i => .ok (pint i)
      | none => .error (.exc .TypeError) := rfl

theorem builtin_int_pint (i : Int) : evalBuiltin "int" [pint i] = some (.ok (pint i)) := by
  simp [evalBuiltin, asInt, Sc.isInt, Sc.intVal, PyVal.isInt, PyVal.intVal]

/-- the product `timeout * 1e9` -/
theorem eval_mul_1e9 (conv : Int → Nat → Int) (env : Env) (tv : PV) (h : env "timeout" = some tv) :
    eval (setTimeoutM conv) env
      (.call "__mul__" (.cons (.var "timeout") (.cons (.call "__float__" (.cons (.strLit "1000000000.0") .nil)) .nil))) =
      match nsOf conv tv with
      | some i => .ok (pint i)
      | none => .error (.exc .TypeError) := by
  have hf : eval (setTimeoutM conv) env (.call "__float__" (.cons (.strLit "1000000000.0") .nil)) = .ok f1e9 := by
    rw [eval_call _ _ "__float__" _ [.str "1000000000.0"] (by decide) (by simp [evalArgs, eval])]; rfl
  rw [eval_call _ _ "__mul__" _ [tv, f1e9] (by decide) (args2 _ _ _ _ _ _ (eval_var _ _ _ _ h) hf), setTimeoutM_mul]

/-- **`Timer.set_timeout(timeout)`**, for every value of `timeout`: `self.timeout = int(timeout * 1e9)` nanoseconds for a number,
    `TypeError` otherwise; nothing else is written -/
theorem timer_set_timeout_agrees (conv : Int → Nat → Int) (env : Env) (tv : PV) (h : env "timeout" = some tv) :
    runFn (setTimeoutM conv) env Src.Timer_set_timeout =
      match nsOf conv tv with
      | some i => .ok (pnone, env.set "self.timeout" (pint i))
      | none => .error (.exc .TypeError) := by
  have hm := eval_mul_1e9 conv env tv h
  cases hn : nsOf conv tv with
  | none =>
    rw [hn] at hm
    have : eval (setTimeoutM conv) env (.call "int" (.cons (.call "__mul__" (.cons (.var "timeout")
        (.cons (.call "__float__" (.cons (.strLit "1000000000.0") .nil)) .nil))) .nil)) = .error (.exc .TypeError) := by
      simp [eval, evalArgs, hm]
    apply runFn_err
    show execBlock _ env (drop Src.Timer_set_timeout 0) = _
    exact step_err rfl (exec_assign_err _ _ _ _ _ this)
  | some i =>
    rw [hn] at hm
    have : eval (setTimeoutM conv) env (.call "int" (.cons (.call "__mul__" (.cons (.var "timeout")
        (.cons (.call "__float__" (.cons (.strLit "1000000000.0") .nil)) .nil))) .nil)) = .ok (pint i) := by
      simp [eval, evalArgs, hm, builtin_int_pint]
    apply runFn_next
    show execBlock _ env (drop Src.Timer_set_timeout 0) = _
    rw [step_next rfl (exec_assign _ _ _ _ _ this)]
    rfl

/-- the callees of `Timer.__init__`: `self.set_timeout(timeout)` RUNS `Src.Timer_set_timeout` (the callee's parameter has the same
    name as the caller's) -/
def timerInitM (conv : Int → Nat → Int) : Meths where
  fn := (setTimeoutM conv).fn
  proc := fun name args env =>
    match name, args with
    | "self.set_timeout", [v] => envM (setTimeoutM conv) (env.set "timeout" v) Src.Timer_set_timeout
    | n, _ => .error (.unsupported ("call " ++ n))

theorem timerInitM_set_timeout (conv : Int → Nat → Int) (v : PV) (env : Env) :
    (timerInitM conv).proc "self.set_timeout" [v] env = envM (setTimeoutM conv) (env.set "timeout" v) Src.Timer_set_timeout := rfl

/-- what `Timer.__init__` leaves -/
def timerInitEnv (i : Int) (env : Env) : Env := (env.set "self.timeout" (pint i)).set "self.start_time" pnone

/-- **`Timer.__init__(timeout)`**, for every value of `timeout` (with `set_timeout` interpreted from its source) -/
theorem timer_init_agrees (conv : Int → Nat → Int) (env : Env) (tv : PV) (h : env "timeout" = some tv) :
    runFn (timerInitM conv) env Src.Timer_init =
      match nsOf conv tv with
      | some i => .ok (pnone, timerInitEnv i env)
      | none => .error (.exc .TypeError) := by
  have hp : (timerInitM conv).proc "self.set_timeout" [tv] env =
      match nsOf conv tv with
      | some i => .ok (env.set "self.timeout" (pint i))
      | none => .error (.exc .TypeError) := by
    rw [timerInitM_set_timeout, set_same env _ _ h, envM, timer_set_timeout_agrees conv env tv h]
    cases nsOf conv tv <;> rfl
  cases hn : nsOf conv tv with
  | none =>
    rw [hn] at hp
    apply runFn_err
    show execBlock _ env (drop Src.Timer_init 0) = _
    exact step_err rfl (exec_proc_err _ _ "self.set_timeout" _ [tv] _ (by decide) (args1 _ _ _ _ (eval_var _ _ _ _ h)) hp)
  | some i =>
    rw [hn] at hp
    apply runFn_next
    show execBlock _ env (drop Src.Timer_init 0) = _
    rw [step_next rfl (exec_proc _ _ _ "self.set_timeout" _ [tv] (by decide) (args1 _ _ _ _ (eval_var _ _ _ _ h)) hp)]
    rw [step_next (b := Src.Timer_init) (n := 1) rfl (exec_assign _ _ "self.start_time" .none pnone (by simp [eval]))]
    rfl

/-- **the freshly constructed timer is the model's `{ timeout := n }`** (stopped): on the two attributes of a `Timer` the final
    environment is MiscTimer's `timerEnv { timeout := n }`, and nothing else is written -/
theorem timer_init_model (conv : Int → Nat → Int) (env : Env) (tv : PV) (n : Nat) (h : env "timeout" = some tv)
    (hn : nsOf conv tv = some (n : Int)) :
    ∃ env', runFn (timerInitM conv) env Src.Timer_init = .ok (pnone, env') ∧
      env' "self.start_time" = timerEnv { timeout := n } "self.start_time" ∧
      env' "self.timeout" = timerEnv { timeout := n } "self.timeout" ∧
      env' "self.start_time" = some (optPV ({ timeout := n } : Timer).start) ∧
      env' "self.timeout" = some (pint ({ timeout := n } : Timer).timeout) ∧
      ∀ k, k ≠ "self.start_time" → k ≠ "self.timeout" → env' k = env k := by
  refine ⟨timerInitEnv n env, by rw [timer_init_agrees conv env tv h, hn], ?_, ?_, ?_, ?_, ?_⟩
  · simp [timerInitEnv, set_get]; rfl
  · simp [timerInitEnv, set_get]; rfl
  · simp [timerInitEnv, set_get]; rfl
  · simp [timerInitEnv, set_get]
  · intro k h1 h2; simp [timerInitEnv, set_get, h1, h2]

/-- `Timer(timeout=0)`: the model's `{}` -/
theorem timer_init_zero (conv : Int → Nat → Int) (env : Env) (h : env "timeout" = some (pint 0)) :
    runFn (timerInitM conv) env Src.Timer_init = .ok (pnone, timerInitEnv 0 env) ∧
    timerInitEnv 0 env "self.start_time" = some (optPV ({} : Timer).start) ∧
    timerInitEnv 0 env "self.timeout" = some (pint ({} : Timer).timeout) := by
  refine ⟨by rw [timer_init_agrees conv env _ h]; rfl, by simp [timerInitEnv, set_get]; rfl, by simp [timerInitEnv, set_get]; rfl⟩

/-- a whole number of seconds -/
theorem nsOf_int (conv : Int → Nat → Int) (k : Nat) : nsOf conv (pint k) = some ((k * 1000000000 : Nat) : Int) := by
  simp [nsOf, pint]
/-- a float number of seconds: the conversion parameter -/
theorem nsOf_float (conv : Int → Nat → Int) (n : Int) (d : Nat) : nsOf conv (.sc (.py (.float n d))) = some (conv n d) := rfl

/-- the `Timer` object as a VALUE `[start_time, timeout_ns]`, for the callers that store it in an attribute (the flat environment of the
    interpreter cannot bind `x.attr` on `x = obj`): `Timer(v)` RUNS `Src.Timer_init` in a fresh frame and packs the two attributes -/
def packTimer (e : Env) : Except PErr PV :=
  match e "self.start_time", e "self.timeout" with
  | some (.sc a), some (.sc b) => .ok (.list [a, b])
  | _, _ => .error (.unsupported "Timer object")

def timerNew (conv : Int → Nat → Int) (v : PV) : Except PErr PV :=
  match runFn (timerInitM conv) (envOf [("timeout", v)]) Src.Timer_init with
  | .ok (_, e) => packTimer e
  | .error x => .error x

theorem timerNew_eq (conv : Int → Nat → Int) (v : PV) :
    timerNew conv v =
      match nsOf conv v with
      | some i => .ok (.list [.py .none, .py (.int i)])
      | none => .error (.exc .TypeError) := by
  unfold timerNew
  rw [timer_init_agrees conv _ v rfl]
  cases nsOf conv v with
  | none => rfl
  | some i => simp [packTimer, timerInitEnv, set_get]

example : nsOf (fun n d => n * 1000000000 / d) (pint 0) = some 0 := rfl
example : timerNew (fun n d => n * 1000000000 / d) (.sc (.py (.float 1000 1000))) = .ok (.list [.py .none, .py (.int 1000000000)]) := by
  rw [timerNew_eq]; rfl

end Isotp.PyAgree.Init
