"""C20 - socket bind maps every address to the kernel addressing the Python layer uses."""
import gen
import ref
from props.base import PropBase
from props.C19 import rand_init, rand_set_call, RefKernel

EFF = 0x80000000


class C20(PropBase):
    id = 'C20'
    lean_modules = ['Isotp.Props.C20']
    theorems = []
    keep_ops = ('new', 'bind')
    rule = ('addresses (7 modes, asymmetric combinations incl. inconsistent prefix use, random ids / address bytes / custom id bases) x previously '
            'configured options (random valid set_* calls, random initial kernel state) x call orders of set_*, bind, send, recv, close; the bind '
            'tuple, the option writes and the resulting kernel addressing are compared with what a pure-Python layer with the same address emits '
            'and accepts for physical addressing; distinct = (modes, prior calls, order)')
    assumptions = ['modelled kernel semantics of EXTEND_ADDR / RX_EXT_ADDR / bind tuple (net/can/isotp.c)', 'the user did not set the two addressing flags by hand']
    extra_trusted = ['the fake kernel socket and its copy of the uapi struct layouts']
    quick_per_shard = 200
    thorough_per_shard = 6000

    def scenario(self, rng, tier):
        init = rand_init(rng)
        if 'flags' in init:
            init['flags'] &= ~0x202
        ops = [{'op': 'new', 'init': init}]
        if rng.random() < 0.2:
            h1, h2 = gen.rand_half(rng), gen.rand_half(rng)
            a = {'asym': True, 'tx': h1['tx'], 'rx': h2['rx']}
        else:
            a, _ = gen.rand_addr_pair(rng, asym_prob=0)
        from props.C19 import MAXV

        txh0, rxh0 = ref.half(a, 'tx'), ref.half(a, 'rx')
        both_prefix = txh0['mode'] in ref.MODE_PREFIX and rxh0['mode'] in ref.MODE_PREFIX

        def clean_call():
            c = rand_set_call(rng)
            # valid values only, addressing flags untouched (hypothesis of C20_ext)
            for k, v in list(c['args'].items()):
                if v is not None and not (isinstance(v, int) and v >= 0):
                    c['args'][k] = 1
                if k in ('ext_address', 'rx_ext_address'):
                    c['args'][k] = None
                    if both_prefix and c['op'] == 'set_opts' and rng.random() < 0.6:
                        # extension bytes configured by hand BEFORE bind() of an address that uses them: bind() must overwrite both, also
                        # when the one it looks at first already happens to be right
                        if k == 'ext_address':
                            c['args'][k] = ref.tx_prefix(txh0)[0] if rng.random() < 0.6 else rng.randrange(256)
                        else:
                            c['args'][k] = rng.randrange(256)
                if k == 'optflag' and c['args'][k] is not None:
                    c['args'][k] = (min(c['args'][k], 0xFFFFFFFF)) & ~0x202
                elif c['args'][k] is not None:
                    c['args'][k] = min(c['args'][k], MAXV[k])
            return c
        pre = [clean_call() for _ in range(rng.randrange(0, 3))]
        seq = pre + [{'op': 'bind', 'addr': a}]
        if rng.random() < 0.2:
            # the kernel refuses the first bind (unknown interface, ...): the wrapper must not consider itself bound
            seq = pre + [{'op': 'bindfail', 'addr': a}] + ([{'op': 'bind', 'addr': a}] if rng.random() < 0.6 else [])
        extras = [{'op': 'send'}, {'op': 'recv'}, {'op': 'close'}, clean_call(), {'op': 'get_opts'}, {'op': 'send'}]
        for e in extras:
            if rng.random() < 0.6:
                seq.insert(rng.randrange(0, len(seq) + 1), e)
        ops += seq
        ops.append({'op': 'get_opts'})
        return {'ops': ops, 'meta': {'addr': a}}

    def run_impl(self, sc):
        import sockrun
        r = sockrun.SockRunner()
        li, lo, states = r.run(sc['ops'])
        sc['_states'] = states
        return li, lo

    def judge(self, sc, lines_in, impl_out):
        out = []
        a = sc['meta']['addr']
        txh, rxh = ref.half(a, 'tx'), ref.half(a, 'rx')
        states = sc.get('_states')
        bound = False
        closed = False
        for k, op in enumerate(sc['ops']):
            if k >= len(impl_out) or k == 0:
                continue
            parts = impl_out[k].split('|')
            calls = [c for c in parts[0].split(';') if c]
            res = parts[1]
            name = op['op']
            if name in ('send', 'recv'):
                want = 'ok' if bound else 'exc RuntimeError'
                if res != want:
                    out.append(('guards', '%s() %s: %s, expected %s' % (name, 'after bind' if bound else 'while not bound', res, want)))
            elif name.startswith('set_'):
                if bound and res != 'exc RuntimeError':
                    out.append(('guards', '%s after bind() gave %s instead of RuntimeError' % (name, res)))
                if bound and calls:
                    out.append(('guards', '%s after bind() reached the kernel: %s' % (name, calls)))
            elif name == 'close':
                bound = False
                closed = True
            elif name == 'bindfail':
                if res == 'ok':
                    out.append(('guards', 'bind() returned normally although the kernel refused it'))
            elif name == 'bind':
                tx_pre, rx_pre = txh['mode'] in ref.MODE_PREFIX, rxh['mode'] in ref.MODE_PREFIX
                if a.get('asym') and tx_pre != rx_pre:
                    if res != 'exc ValueError' or calls:
                        out.append(('asym_refused', 'asymmetric address with inconsistent extension byte: %s, calls %s' % (res, calls)))
                    continue
                if bound and (tx_pre or rx_pre):
                    continue     # second bind of a prefixed address is refused by the set_opts guard
                if res != 'ok':
                    out.append(('tuple', 'bind() of a valid address failed: %s' % res))
                    continue
                bound = True
                before = states[k - 1] if states else None
                after = states[k] if states else None
                bcalls = [c for c in calls if c.startswith('bind:')]
                exp_rx = gen.rx_match_frame(a, b'')[0]
                exp_tx = ref.emitted_id(txh)
                exp_rx_k = (exp_rx & 0x1FFFFFFF) | EFF if rxh['mode'] in ref.MODE_29 else exp_rx & 0x7FF
                exp_tx_k = (exp_tx & 0x1FFFFFFF) | EFF if txh['mode'] in ref.MODE_29 else exp_tx & 0x7FF
                if bcalls != ['bind:%d:%d' % (exp_rx_k, exp_tx_k)]:
                    out.append(('tuple', 'bind issued %s, expected bind:%d:%d' % (bcalls, exp_rx_k, exp_tx_k)))
                if after is None or before is None:
                    continue
                fl_b, fl_a = before['opts'][0], after['opts'][0]
                if tx_pre:
                    exp_ext = ref.tx_prefix(txh)[0]
                    exp_rxext = gen.rx_match_frame(a, b'\x00')[2][0]
                    if not (fl_a & 0x002) or not (fl_a & 0x200) or after['opts'][2] != exp_ext or after['opts'][5] != exp_rxext:
                        out.append(('ext', 'after bind: flags %#x ext_address %#x rx_ext_address %#x; expected EXTEND_ADDR|RX_EXT_ADDR, %#x, %#x' % (
                            fl_a, after['opts'][2], after['opts'][5], exp_ext, exp_rxext)))
                    if (fl_a & ~0x202) != (fl_b & ~0x202) or after['opts'][1] != before['opts'][1] or after['opts'][3:5] != before['opts'][3:5]:
                        out.append(('ext', 'bind changed other options: flags %#x -> %#x, %s -> %s' % (fl_b, fl_a, before['opts'], after['opts'])))
                else:
                    if after['opts'] != before['opts'] or any(c.startswith('so:') for c in calls):
                        out.append(('ext', 'bind of a mode without prefix byte wrote options: %s' % calls))
                if after['fc'] != before['fc'] or after['ll'] != before['ll'] or after['txstmin'] != before['txstmin']:
                    out.append(('ext', 'bind changed flow-control / link-layer / tx_stmin options'))
                # equivalence with the pure-Python layer (physical addressing)
                krx, ktx = after['bound']
                k_emit_id = ktx & 0x1FFFFFFF if ktx & EFF else ktx & 0x7FF
                k_emit_ext = bool(ktx & EFF)
                k_prefix = bytes([after['opts'][2]]) if fl_a & 0x002 else b''
                if (k_emit_id, k_emit_ext, k_prefix) != (ref.emitted_id(txh), txh['mode'] in ref.MODE_29, ref.tx_prefix(txh)):
                    out.append(('equiv', 'kernel emits id %x ext=%s prefix %s; the Python layer emits id %x ext=%s prefix %s' % (
                        k_emit_id, k_emit_ext, k_prefix.hex(), ref.emitted_id(txh), txh['mode'] in ref.MODE_29, ref.tx_prefix(txh).hex())))
                # acceptance: the kernel accepts (id == rxid incl. type) and, with EXTEND_ADDR, first byte == (rx_ext_address if RX_EXT_ADDR else ext_address)
                fid, fext, fdata = gen.rx_match_frame(a, bytes([2, 1, 2]))
                k_acc_id = krx & 0x1FFFFFFF if krx & EFF else krx & 0x7FF
                k_acc_ext = bool(krx & EFF)
                k_acc_pre = (bytes([after['opts'][5]]) if fl_a & 0x200 else bytes([after['opts'][2]])) if fl_a & 0x002 else b''
                py_pre = fdata[:1] if rxh['mode'] in ref.MODE_PREFIX else b''
                if (k_acc_id, k_acc_ext, k_acc_pre) != (fid, fext, py_pre):
                    out.append(('equiv', 'kernel accepts id %x ext=%s prefix %s; the Python layer accepts physical id %x ext=%s prefix %s' % (
                        k_acc_id, k_acc_ext, k_acc_pre.hex(), fid, fext, py_pre.hex())))
                # the same against the REAL Address object a pure-Python layer would be given (not only the reference): emission ...
                pv = after.get('py_view')
                if pv and 'error' not in pv:
                    if (k_emit_id, k_emit_ext, k_prefix) != (pv['tx_id'], pv['tx_ext'], bytes(pv['prefix'])):
                        out.append(('equiv', 'kernel emits id %x ext=%s prefix %s; Address object: id %x ext=%s prefix %s' % (
                            k_emit_id, k_emit_ext, k_prefix.hex(), pv['tx_id'], pv['tx_ext'], bytes(pv['prefix']).hex())))
                    # ... and acceptance on probe frames around the bound identifier (functional identifiers aside: the kernel socket is 1-to-1)
                    func_id = gen.rx_match_frame(a, b'', functional=True)[0]
                    for (pid, pext, b0, py_acc) in pv['probes']:
                        if pid == func_id and pid != fid:
                            continue
                        k_acc = (pid == k_acc_id and pext == k_acc_ext and (not k_acc_pre or b0 == k_acc_pre[0]))
                        if k_acc != py_acc:
                            out.append(('equiv', 'frame id %x ext=%s first byte %02x: kernel socket %s it, Address.is_for_me %s it' % (
                                pid, pext, b0, 'accepts' if k_acc else 'drops', 'accepts' if py_acc else 'drops')))
                            break
                elif pv and 'error' in pv:
                    out.append(('equiv', 'Address object of the bound address could not be queried: %s' % pv['error']))
        return out[:3]

    def nontrivial_key(self, sc, lines_in, impl_out):
        a = sc['meta']['addr']
        modes = (a['tx']['mode'], a['rx']['mode']) if a.get('asym') else (a['mode'],)
        return (modes, tuple(op['op'] for op in sc['ops']), tuple(o.split('|')[1][:8] for o in impl_out[1:] if '|' in o))

    def tally(self, dist, sc, lines_in, impl_out):
        for op, o in zip(sc['ops'], impl_out):
            k = 'op:' + op['op'] + (':exc' if '|exc' in o else '')
            dist[k] = dist.get(k, 0) + 1


PROP = C20()
