import Isotp.Proofs.NetSend
import Isotp.Proofs.NetRecv2
import Isotp.Proofs.NetTxLog2
import Isotp.Proofs.NetNoBG
/-
  Network-level safety (C01 / C10), part 5b: the sending role when only the TIMEOUT errors are excluded.

  `SendInv2`: as `SendInv`, under "no timeout reported" and "every frame read or still in the inbox is `InGood`"
  (Flow Control frames decode with status ContinueToSend, First Frames announce an admitted length). Then
  * no request is completed with failure: `BadGenerator` cannot happen (bytes payloads, `NoBG`), an Overflow / Wait
    Flow Control is never in the mailbox (`MailOk`), `FlowControlTimeout` is excluded by hypothesis (`Why.processTx`);
  * the layer's own Flow Control frames have status ContinueToSend (`StatusOk`: `FrameTooLong` never happens);
  so every frame it emits is `OutGood`: its Flow Control frame with status 0, or a frame of the segmentation of an
  admissible payload.
-/
namespace Isotp.NetP
open Isotp Isotp.State

/-! ### `_process_rx` and the two Flow Control fields -/

theorem processRx_status (s : State) (m : CanMsg) (st : Nat) (h : (s.processRx m).1.pendingFcStatus = some st) :
    s.pendingFcStatus = some st ∨ st = 0 ∨
      ∃ d len data esc, decode m.data s.addr.rx.rxPrefixSize = some d ∧ d.pdu = .ff len data esc ∧
        len > s.cfg.maxFrameSize := by
  revert h
  unfold processRx startReception
  grind (splits := 40) [deliver, stopReceiving, State.error, emit, requestFc, startRxCfTimer]

theorem decodeBody_fc_type (d : Bytes) (st bs stm : Nat) (h : decodeBody d = some (.fc st bs stm)) :
    byteAt d 0 / 16 = 3 := by
  unfold decodeBody at h
  dsimp only at h
  repeat' split at h
  all_goals first | (cases h; done) | assumption | (simp at h)

theorem decode_fc_isFc (k : Nat) (m : CanMsg) (d : Decoded) (st bs stm : Nat) (h : decode m.data k = some d)
    (hp : d.pdu = .fc st bs stm) : isFc k m = true := by
  unfold decode at h
  split at h
  · cases h
  · split at h
    · cases h
    · rename_i p hb
      simp only [Option.some.injEq] at h
      subst h
      simp only [] at hp
      subst hp
      simp [isFc, decodeBody_fc_type _ _ _ _ hb]

/-- the mailbox after `_process_rx`: unchanged, cleared, or the Flow Control the frame decodes to -/
theorem processRx_lastFc (s : State) (m : CanMsg) (f : FcFrame) (h : (s.processRx m).1.lastFc = some f) :
    s.lastFc = some f ∨
      ∃ d, decode m.data s.addr.rx.rxPrefixSize = some d ∧ d.pdu = .fc f.status f.bs f.stmin := by
  revert h
  unfold processRx startReception
  grind (splits := 40) [deliver, stopReceiving, State.error, emit, requestFc, startRxCfTimer]

/-- the errors `_process_rx` reports are reception errors -/
theorem processRx_errs (s : State) (m : CanMsg) (t : Nat) (x : Err) (h : Ev.err t x ∈ (s.processRx m).1.log) :
    Ev.err t x ∈ s.log ∨ Rx.isRxErr x = true := by
  revert h
  unfold processRx startReception
  grind (splits := 40) [deliver, stopReceiving, State.error, emit, requestFc, startRxCfTimer, Rx.isRxErr]

theorem checkTimeoutsRx_errs (s : State) (t : Nat) (x : Err) (h : Ev.err t x ∈ s.checkTimeoutsRx.log) :
    Ev.err t x ∈ s.log ∨ Rx.isRxErr x = true := by
  cases ht : s.timerCf.timedOut s.now with
  | false =>
    have : s.checkTimeoutsRx = s := by unfold checkTimeoutsRx; simp [ht]
    rw [this] at h; exact Or.inl h
  | true =>
    rw [Rx.checkTimeoutsRx_expired s ht] at h
    simp only [List.mem_cons, Ev.err.injEq] at h
    rcases h with h | h
    · rw [h.2]; exact Or.inr rfl
    · exact Or.inl h

theorem rxOne_errs (s : State) (dt : Nat) (m : CanMsg) (rest : List (Nat × CanMsg)) (t : Nat) (x : Err)
    (h : Ev.err t x ∈ (rxOne s dt m rest).log) : Ev.err t x ∈ s.log ∨ Rx.isRxErr x = true := by
  have h1 : ∀ t x, Ev.err t x ∈ (arrive s dt m rest).checkTimeoutsRx.log → Ev.err t x ∈ s.log ∨ Rx.isRxErr x = true := by
    intro t x hx
    rcases checkTimeoutsRx_errs _ t x hx with hx | hx
    · rw [arrive_log] at hx
      simp only [List.mem_cons, reduceCtorEq, false_or] at hx
      exact Or.inl hx
    · exact Or.inr hx
  unfold rxOne at h
  split at h
  · rcases processRx_errs _ m t x h with h | h
    · exact h1 t x h
    · exact Or.inr h
  · exact h1 t x h

/-! ### `_process_tx` never puts a Flow Control into the mailbox -/

theorem stopSending_lastFc (s : State) (b : Bool) : (s.stopSending b).lastFc = s.lastFc := by
  unfold stopSending; cases s.active <;> rfl

theorem handleFc_lastFc (s : State) (f : FcFrame) : (s.handleFc f).lastFc = s.lastFc := by
  have := stopSending_lastFc
  unfold handleFc
  grind [State.error, emit, startRxFcTimer]

theorem txFc_lastFc (s : State) : (C12.txFc s).1.lastFc = none := by
  have h1 := stopSending_lastFc
  have h2 := handleFc_lastFc
  unfold C12.txFc
  grind [State.error, emit]

theorem txTimeout_lastFc (s : State) : (C12.txTimeout s).lastFc = s.lastFc := by
  have h1 := stopSending_lastFc
  unfold C12.txTimeout
  grind [State.error, emit]

theorem txDepl_lastFc (s : State) : (C12.txDepl s).lastFc = s.lastFc := by
  have h1 := stopSending_lastFc
  unfold C12.txDepl
  grind

theorem consumeActive_lastFc (s : State) (r : Req) (n : Nat) (e : Bool) : (s.consumeActive r n e).1.lastFc = s.lastFc := by
  unfold consumeActive
  grind [emit]

theorem sfTail_lastFc (s : State) (r : Req) (b : Bool) (allowed : Nat) (res : Option Bytes) :
    (C12.sfTail s r b allowed res).1.lastFc = s.lastFc := by
  have h1 := stopSending_lastFc
  unfold C12.sfTail
  grind [State.error, State.raise, emit]

theorem ffTail_lastFc (s : State) (total : Nat) (allowed : Nat) (res : Option Bytes) :
    (C12.ffTail s total allowed res).1.lastFc = s.lastFc := by
  have h1 := stopSending_lastFc
  unfold C12.ffTail
  grind [State.error, State.raise, emit, startRxFcTimer]

theorem startTx_lastFc (s : State) (r : Req) (allowed : Nat) : (s.startTx r allowed).1.lastFc = s.lastFc := by
  rw [C12.startTx_eq]
  split
  · rw [sfTail_lastFc, consumeActive_lastFc]
  · rw [ffTail_lastFc, consumeActive_lastFc]

theorem readTxQueue_lastFc (allowed : Nat) (q : List Req) : ∀ s : State, (s.readTxQueue allowed q).1.lastFc = s.lastFc := by
  induction q with
  | nil => intro s; rfl
  | cons r rest ih =>
    intro s
    cases hd : r.depleted
    · rw [C12.readTxQueue_start _ _ _ _ hd, startTx_lastFc]
    · rw [C12.readTxQueue_depl _ _ _ _ hd, ih]

theorem cfTail_lastFc (s : State) (r' : Req) (rbs : Nat) (res : Option Bytes) :
    (C12.cfTail s r' rbs res).1.lastFc = s.lastFc := by
  have h1 := stopSending_lastFc
  unfold C12.cfTail
  grind [State.error, State.raise, emit, startRxFcTimer]

theorem transmitCf_lastFc (s : State) (allowed : Nat) : (s.transmitCf allowed).1.lastFc = s.lastFc := by
  rw [C12.transmitCf_eq]
  split
  · rfl
  · rfl
  · split
    · split
      · rw [cfTail_lastFc, consumeActive_lastFc]
      · rfl
    · rfl

theorem txFsm_lastFc (s : State) (allowed : Nat) : (C12.txFsm s allowed).1.lastFc = s.lastFc := by
  have h1 := stopSending_lastFc
  have h2 := transmitCf_lastFc s allowed
  have h3 := readTxQueue_lastFc allowed s.txQueue s
  unfold C12.txFsm
  grind [startRxFcTimer]

theorem txFinish_lastFc (x : State × Option CanMsg × Bool) : (C12.txFinish x).1.lastFc = x.1.lastFc := by
  unfold C12.txFinish; grind

/-- `_process_tx` never puts a Flow Control into the mailbox -/
theorem processTx_lastFc (s : State) : s.processTx.1.lastFc = s.lastFc ∨ s.processTx.1.lastFc = none := by
  rw [C12.processTx_eq]
  have a1 := txPend_lastFc s
  split
  · rename_i s1 hp; rw [hp] at a1; exact Or.inl a1
  · rename_i s1 msg hp; rw [hp] at a1; exact Or.inl a1
  · rename_i s1 hp
    have a2 := txFc_lastFc s1
    split
    · rename_i s2 hf; rw [hf] at a2; exact Or.inr a2
    · rename_i s2 hf
      rw [hf] at a2
      right
      split
      · show (C12.txTimeout s2).lastFc = none
        rw [txTimeout_lastFc]; exact a2
      · rw [txFinish_lastFc, txFsm_lastFc, txDepl_lastFc, txTimeout_lastFc]; exact a2


/-! ### the sender invariant, timeouts only -/

/-- the status of a requested Flow Control is ContinueToSend -/
def StatusOk (s : State) : Prop := ∀ st, s.pendingFcStatus = some st → st = 0

/-- a Flow Control in the mailbox has status ContinueToSend -/
def MailOk (s : State) : Prop := ∀ f, s.lastFc = some f → f.status = 0

/-- what the peer may rely on about a frame of the sender (`c`, `a`): identifier and prefix; if it has N_PCI type 3
    it is the sender's Flow Control frame with status ContinueToSend; otherwise it is a frame of the reference
    segmentation of a non-empty payload of at most `mx` bytes -/
def OutGood (c : Cfg) (a : Addr) (mx : Nat) (m : CanMsg) : Prop :=
  FrameOk a m ∧
  (isFc a.tx.txPrefix.length m = true → ∃ s0 : State, s0.cfg = c ∧ s0.addr = a ∧ m = Proofs.fcMsg s0 0) ∧
  (isFc a.tx.txPrefix.length m = false →
    ∃ p : Bytes, 1 ≤ p.length ∧ p.length < 4294967296 ∧ p.length ≤ mx ∧ m.data ∈ segA c a p)

/-- every error in the history is a reception error or `UnexpectedFlowControlError` -/
def ErrOk (H : List Ev) : Prop := ∀ t x, Ev.err t x ∈ H → Rx.isRxErr x = true ∨ x = .UnexpectedFlowControl

theorem ErrOk.ext {l l' L : List Ev} (h : ErrOk (l ++ L))
    (hn : ∀ t x, Ev.err t x ∈ l' → Ev.err t x ∈ l ∨ Rx.isRxErr x = true ∨ x = .UnexpectedFlowControl) : ErrOk (l' ++ L) := by
  intro t x hx
  rcases List.mem_append.mp hx with hx | hx
  · rcases hn t x hx with h1 | h1
    · exact h t x (List.mem_append_left _ h1)
    · exact h1
  · exact h t x (List.mem_append_right _ hx)

structure Send2Ok (c : Cfg) (a : Addr) (mx : Nat) (s : State) (L : List Ev) (ps : List Bytes) : Prop where
  cfg : s.cfg = c
  addr : s.addr = a
  frames : ∀ m ∈ Net.txOf (s.log ++ L).reverse, OutGood c a mx m
  prog : Progress c a mx s ps (dataOut a.tx.txPrefix.length (s.log ++ L).reverse)
  status : StatusOk s
  mail : MailOk s
  nobg : NoBG s
  errs : ErrOk (s.log ++ L)

/-- **Sender invariant, timeouts only.** -/
def SendInv2 (c : Cfg) (a : Addr) (mx : Nat) (s : State) (L : List Ev) (ps : List Bytes) : Prop :=
  noT (s.log ++ L) = true → (∀ m ∈ seen s L, InGood c a m) → Send2Ok c a mx s L ps

theorem NoBG.same {s s' : State} (h : NoBG s) (ha : s'.active = s.active) (hq : s'.txQueue = s.txQueue) : NoBG s' :=
  ⟨by rw [ha]; exact h.1, by rw [hq]; exact h.2⟩

theorem Send2Ok.neutral {c : Cfg} {a : Addr} {mx : Nat} {s s' : State} {L : List Ev} {ps : List Bytes}
    (h : Send2Ok c a mx s L ps) (hs : Proofs.TxSame s s') (hq : s'.txQueue = s.txQueue)
    (htx : Net.txOf (s'.log ++ L).reverse = Net.txOf (s.log ++ L).reverse) (hst : StatusOk s') (hml : MailOk s')
    (herr : ErrOk (s'.log ++ L)) : Send2Ok c a mx s' L ps :=
  ⟨hs.cfg.trans h.cfg, hs.addr.trans h.addr, by rw [htx]; exact h.frames,
    by unfold dataOut; rw [htx]; exact h.prog.same hs hq, hst, hml, h.nobg.same hs.active hq, herr⟩

theorem Progress.idleC12 {c : Cfg} {a : Addr} {mx : Nat} {s : State} {ps out : List Bytes} (h : Progress c a mx s ps out) :
    C12.Idle s := by
  intro hi
  cases h with
  | idle _ h2 _ _ => exact h2
  | busy dn rest p r0 rq k _ _ _ h4 _ _ _ =>
    rcases h4 with ⟨-, -, hact, -⟩ | hi'
    · exact hact
    · exact absurd hi hi'.not_idle

/-- `_process_rx` on an accepted `InGood` frame keeps `StatusOk` and `MailOk` -/
theorem processRx_ok (c : Cfg) (a : Addr) (s : State) (m : CanMsg) (hc : s.cfg = c) (ha : s.addr = a)
    (hfm : a.rx.isForMe m = true) (hg : InGood c a m) (hst : StatusOk s) (hml : MailOk s) :
    StatusOk (s.processRx m).1 ∧ MailOk (s.processRx m).1 := by
  obtain ⟨g1, g2⟩ := hg hfm
  constructor
  · intro st h
    rcases processRx_status s m st h with h | h | ⟨d, len, data, esc, hd, hp, hlen⟩
    · exact hst st h
    · exact h
    · rw [ha] at hd
      obtain ⟨pdu, cdl, rdl⟩ := d
      simp only [] at hp
      subst hp
      have := g2 len data esc cdl rdl hd
      rw [hc] at hlen
      omega
  · intro f h
    rcases processRx_lastFc s m f h with h | ⟨d, hd, hp⟩
    · exact hml f h
    · rw [ha] at hd
      have hfc := decode_fc_isFc _ m d _ _ _ hd hp
      obtain ⟨bs, stm, cdl, rdl, hd'⟩ := g1 hfc
      rw [hd] at hd'
      simp only [Option.some.injEq] at hd'
      subst hd'
      simp only [Pdu.fc.injEq] at hp
      exact hp.1.symm

theorem SendInv2.frame {c : Cfg} {a : Addr} {mx : Nat} {s : State} {L : List Ev} {ps : List Bytes}
    (h : SendInv2 c a mx s L ps) (dt : Nat) (m : CanMsg) (rest : List (Nat × CanMsg)) (hin : s.inbox = (dt, m) :: rest) :
    SendInv2 c a mx (rxOne s dt m rest) L ps := by
  intro hn hg
  rw [seen_step L s _ (Micro.frame s dt m rest hin)] at hg
  have hgm := hg m (mem_seen_head s L dt m rest hin)
  have hn2 : noT ((arrive s dt m rest).checkTimeoutsRx.log ++ L) = true := (rxOne_log2 s dt m rest).noT L hn
  have hct := checkTimeoutsRx_noT _ L hn2
  have hn1 : noT ((arrive s dt m rest).log ++ L) = true := by rw [hct] at hn2; exact hn2
  have hn0 : noT (s.log ++ L) = true := by
    rw [arrive_log, List.cons_append, noT_cons] at hn1
    exact (Bool.and_eq_true _ _ ▸ hn1).2
  have hok := h hn0 hg
  have htx : Net.txOf ((rxOne s dt m rest).log ++ L).reverse = Net.txOf (s.log ++ L).reverse := by
    rw [(rxOne_log s dt m rest).txOf L]
    simp [Net.txOf, List.filterMap_append]
  have herr : ErrOk ((rxOne s dt m rest).log ++ L) :=
    hok.errs.ext (fun t x hx => (rxOne_errs s dt m rest t x hx).imp id Or.inl)
  refine hok.neutral (rxOne_txSame s dt m rest).1 (rxOne_txSame s dt m rest).2 htx ?_ ?_ herr
  all_goals
    unfold rxOne
    rw [hct]
    have ha1 : (arrive s dt m rest).addr = a := hok.addr
    by_cases hfm : a.rx.isForMe m = true
    · rw [ha1, if_pos hfm]
      have := processRx_ok c a (arrive s dt m rest) m hok.cfg hok.addr hfm hgm hok.status hok.mail
      first | exact this.1 | exact this.2
    · rw [ha1, if_neg hfm]
      first | exact hok.status | exact hok.mail

theorem outKind_good {c : Cfg} {a : Addr} {mx : Nat} {s : State} {m : CanMsg} (hc : s.cfg = c) (ha : s.addr = a)
    (hst : StatusOk s) (h : OutKind mx s m) : OutGood c a mx m := by
  subst hc ha
  refine ⟨h.frameOk, ?_, ?_⟩
  · intro hfc
    rcases h with ⟨st, hs, rfl⟩ | ⟨p, r0, d, -, hd, rfl⟩
    · have := hst st hs
      subst this
      exact ⟨s, rfl, rfl, rfl⟩
    · have := isFc_segment (Spec.TxCfg.of s.cfg s.addr) p (Proofs.msgFor s r0 p d) hd
      rw [show (Spec.TxCfg.of s.cfg s.addr).pre.length = s.addr.tx.txPrefix.length from rfl] at this
      rw [this] at hfc; cases hfc
  · intro hfc
    rcases h with ⟨st, hs, rfl⟩ | ⟨p, r0, d, hr, hd, rfl⟩
    · rw [isFc_fcMsg] at hfc; cases hfc
    · exact ⟨p, hr.2.2.1, hr.2.2.2.1, hr.2.2.2.2, hd⟩

theorem SendInv2.micro {c : Cfg} {a : Addr} {mx : Nat} {s s' : State} {L : List Ev} {ps : List Bytes}
    (hsafe : SafeOk s) (h : SendInv2 c a mx s L ps) (hm : Micro s s') : SendInv2 c a mx s' L ps := by
  have hseen := seen_step L s s' hm
  cases hm with
  | frame dt m rest hin => exact h.frame dt m rest hin
  | rxEnd hin =>
    intro hn hg
    have hct := checkTimeoutsRx_noT _ L hn
    unfold rxEnd at hn hg hseen ⊢
    rw [hct] at hn hg hseen ⊢
    have hn0 : noT (s.log ++ L) = true := by
      have : ((({ s with inbox := [] } : State).emit (.rxNone s.now))).log = .rxNone s.now :: s.log := rfl
      rw [this, List.cons_append, noT_cons] at hn
      exact (Bool.and_eq_true _ _ ▸ hn).2
    have hok := h hn0 (by rw [← hseen]; exact hg)
    exact hok.neutral (txSame_refl' _ _ rfl rfl rfl rfl rfl rfl rfl rfl) rfl
      (by simp [emit, Net.txOf, List.filterMap_append]) hok.status hok.mail
      (hok.errs.ext (fun t x hx => by
        simp only [emit, List.mem_cons, reduceCtorEq, false_or] at hx
        exact Or.inl hx))
  | rl =>
    intro hn hg
    have hok := h hn (by rw [← hseen]; exact hg)
    exact hok.neutral (txSame_refl' _ _ rfl rfl rfl rfl rfl rfl rfl rfl) rfl rfl hok.status hok.mail hok.errs
  | tx hx =>
    have hlog := processTx_log s
    have hs1 : seen s.processTx.1 L = seen s L := by
      unfold seen
      rw [hlog.rxOf L, (TxFrame.processTx s).inbox]
    -- the pass itself
    have hcore : noT (s.processTx.1.log ++ L) = true → (∀ m ∈ seen s L, InGood c a m) →
        Send2Ok c a mx s L ps ∧ Progress c a mx s.processTx.1 ps
          (dataOut a.tx.txPrefix.length (s.processTx.1.log ++ L).reverse ++ outData a.tx.txPrefix.length s.processTx.2.1) ∧
        (∀ m, s.processTx.2.1 = some m → OutGood c a mx m) ∧
        StatusOk s.processTx.1 ∧ MailOk s.processTx.1 ∧ NoBG s.processTx.1 ∧ ErrOk (s.processTx.1.log ++ L) := by
      intro hn1 hg
      have hok := h (hlog.noT L hn1) hg
      have hidle := hok.prog.idleC12
      have hbg := Bg.processTx hok.nobg hidle
      have herrs : ErrOk (s.processTx.1.log ++ L) := by
        obtain ⟨new', hnew', -, hall⟩ := Why.processTx s
        have hnt : noT new' = true := by
          rw [hnew', List.append_assoc, noT_append] at hn1
          exact (Bool.and_eq_true _ _ ▸ hn1).1
        refine hok.errs.ext (fun t x hx => ?_)
        rw [hnew'] at hx
        rcases List.mem_append.mp hx with hx | hx
        · right; right
          rcases hall t x hx with h1 | h1 | h1 | ⟨-, f, hf, h2⟩ | ⟨-, f, hf, h2⟩
          · subst h1
            obtain ⟨new'', hnew'', hno⟩ := hbg.log
            have e2 : new'' = new' := List.append_cancel_right (hnew''.symm.trans hnew')
            subst e2
            exact absurd hx (hno t)
          · subst h1
            have : noT new' = false := by
              simp only [noT, List.all_eq_false]
              exact ⟨_, hx, by simp [Ev.isTimeout]⟩
            rw [this] at hnt; cases hnt
          · exact h1
          · have := hok.mail f hf; omega
          · have := hok.mail f hf; omega
        · exact Or.inl hx
      have hnf : ∀ new, s.processTx.1.log = new ++ s.log → ∀ i, Ev.done i false ∉ new := by
        intro new hnew i hmem
        obtain ⟨new', hnew', hwhy, -⟩ := Why.processTx s
        have e1 : new' = new := List.append_cancel_right (hnew'.symm.trans hnew)
        subst e1
        have hnt : noT new' = true := by
          rw [hnew, List.append_assoc, noT_append] at hn1
          exact (Bool.and_eq_true _ _ ▸ hn1).1
        rcases hwhy ⟨i, hmem⟩ with ⟨t, ht⟩ | ⟨t, ht⟩ | ⟨f, hf, h2⟩ | ⟨f, hf, h1⟩
        · obtain ⟨new'', hnew'', hno⟩ := hbg.log
          have e2 : new'' = new' := List.append_cancel_right (hnew''.symm.trans hnew)
          subst e2
          exact hno t ht
        · have : noT new' = false := by
            simp only [noT, List.all_eq_false]
            exact ⟨_, ht, by simp [Ev.isTimeout]⟩
          rw [this] at hnt; cases hnt
        · have := hok.mail f hf; omega
        · have := hok.mail f hf; omega
      have hp := progress_tx_core c a mx s ps _ hsafe hok.cfg hok.addr hok.prog hnf
      rw [hlog.dataOut _ L]
      refine ⟨hok, hp.1, fun m hm => outKind_good hok.cfg hok.addr hok.status (hp.2 m hm), ?_, ?_, hbg.inv, herrs⟩
      · intro st hst
        rw [(TxFrame.processTx s).pendSt] at hst
        exact hok.status st hst
      · intro f hf
        rcases processTx_lastFc s with h1 | h1
        · rw [h1] at hf; exact hok.mail f hf
        · rw [h1] at hf; cases hf
    unfold afterTxfn at hseen ⊢
    cases ho : s.processTx.2.1 with
    | none =>
      intro hn hg
      rw [ho] at hseen
      simp only [] at hseen hg
      obtain ⟨hok, hprog, -, hst, hml, hbg, herr⟩ := hcore hn (by rw [← hs1]; exact hg)
      rw [ho] at hprog
      exact ⟨(TxFrame.processTx s).cfg.trans hok.cfg, (TxFrame.processTx s).addr.trans hok.addr,
        by rw [hlog.txOf L]; exact hok.frames, by simpa [outData] using hprog, hst, hml, hbg, herr⟩
    | some m =>
      intro hn hg
      rw [ho] at hseen
      simp only [] at hseen hg
      have hn1 : noT (s.processTx.1.log ++ L) = true := by
        have : (s.processTx.1.emit (.tx s.processTx.1.now m)).log = .tx s.processTx.1.now m :: s.processTx.1.log := rfl
        simp only [] at hn
        rw [this, List.cons_append, noT_cons] at hn
        exact (Bool.and_eq_true _ _ ▸ hn).2
      obtain ⟨hok, hprog, hfr, hst, hml, hbg, herr⟩ := hcore hn1 (by rw [← hseen]; exact hg)
      rw [ho] at hprog
      have hlogE : (s.processTx.1.emit (.tx s.processTx.1.now m)).log ++ L =
          Ev.tx s.processTx.1.now m :: s.processTx.1.log ++ L := rfl
      refine ⟨(TxFrame.processTx s).cfg.trans hok.cfg, (TxFrame.processTx s).addr.trans hok.addr, ?_, ?_, hst, hml,
        hbg.same rfl rfl, ?_⟩
      case refine_3 =>
        intro t x hx
        simp only [] at hx
        rw [hlogE] at hx
        simp only [List.cons_append, List.mem_cons, reduceCtorEq, false_or] at hx
        exact herr t x hx
      · simp only []
        rw [hlogE, txOf_tx_cons, hlog.txOf L]
        intro x hx'
        rcases List.mem_append.mp hx' with hx' | hx'
        · exact hok.frames x hx'
        · simp only [List.mem_singleton] at hx'
          subst hx'
          exact hfr _ ho
      · simp only []
        have hd : dataOut a.tx.txPrefix.length ((s.processTx.1.emit (.tx s.processTx.1.now m)).log ++ L).reverse =
            dataOut a.tx.txPrefix.length (s.processTx.1.log ++ L).reverse ++ outData a.tx.txPrefix.length (some m) := by
          unfold dataOut outData
          rw [hlogE, txOf_tx_cons, List.filter_append, List.map_append]
          congr 1
          simp only [List.filter_cons, List.filter_nil]
          cases isFc a.tx.txPrefix.length m <;> simp
        rw [hd]
        exact hprog.same (txSame_refl' _ _ rfl rfl rfl rfl rfl rfl rfl rfl) rfl
  | txExc hx =>
    have := (SafeOk.stepInv.tx s hsafe).2
    rw [this] at hx
    cases hx

theorem SendInv2.process {c : Cfg} {a : Addr} {mx : Nat} {L : List Ev} {ps : List Bytes} (s : State) (doRx doTx : Bool)
    (hsafe : SafeOk s) (h : SendInv2 c a mx s L ps) : SendInv2 c a mx (s.process doRx doTx).1 L ps :=
  (process_ind (fun x => SafeOk x ∧ SendInv2 c a mx x L ps)
    (fun _ _ hx hm => ⟨SafeOk.micro hx.1 hm, SendInv2.micro hx.1 hx.2 hm⟩) doRx doTx s ⟨hsafe, h⟩).2

theorem cov_mkReq (s : State) (args : SendArgs) (hsz : args.size = args.src.length) :
    Cov (C12.mkReq s args) ∧ (C12.mkReq s args).consumed = 0 := by
  refine ⟨⟨rfl, by simp [C12.mkReq], ?_⟩, rfl⟩
  simp [C12.mkReq, hsz]

theorem SendInv2.send {c : Cfg} {a : Addr} {mx : Nat} {s : State} {L : List Ev} {ps : List Bytes}
    (h : SendInv2 c a mx s L ps) (args : SendArgs) (hsz : args.size = args.src.length) (h1 : 1 ≤ args.src.length)
    (h2 : args.src.length < 4294967296) (h3 : args.src.length ≤ mx) :
    SendInv2 c a mx (s.send args).1 L (if queued (s.send args).2 then ps ++ [args.src] else ps) := by
  rcases C12.send_cases s args with ⟨hres, hst⟩ | ⟨hres, -, hst⟩
  · rw [hres, hst]
    exact h
  · have hq : queued (s.send args).2 = true := by
      rw [hres]; cases s.cfg.blocking <;> rfl
    rw [hq, hst]
    intro hn hg
    have hok := h hn hg
    refine ⟨hok.cfg, hok.addr, hok.frames, hok.prog.send _ _ (reqOk_mkReq mx s args hsz h1 h2 h3), hok.status, hok.mail,
      ⟨hok.nobg.1, ?_⟩, hok.errs⟩
    intro r hr
    simp only [List.mem_append, List.mem_singleton] at hr
    rcases hr with hr | rfl
    · exact hok.nobg.2 r hr
    · exact cov_mkReq s args hsz

theorem decodeBody_ff_type (d : Bytes) (len : Nat) (data : Bytes) (esc : Bool) (h : decodeBody d = some (.ff len data esc)) :
    byteAt d 0 / 16 = 1 := by
  unfold decodeBody at h
  dsimp only at h
  repeat' split at h
  all_goals first | (cases h; done) | assumption | (simp at h)

/-- a frame of the reference segmentation of `p` that decodes as a First Frame announces the length of `p` -/
theorem segment_ff_len (c : Spec.TxCfg) (p d : Bytes) (hd : d ∈ Spec.segment c p) (h1 : 1 ≤ p.length)
    (h2 : p.length < 4294967296) (len : Nat) (data : Bytes) (esc : Bool)
    (h : decodeBody (d.drop c.pre.length) = some (.ff len data esc)) : len = p.length := by
  have hty := decodeBody_ff_type _ _ _ _ h
  rcases Proofs.Seg.segment_cases c p with ⟨hs, heq⟩ | ⟨_, _, heq⟩ | ⟨_, _, heq⟩
  · rw [heq] at hd; simp only [List.mem_cons, List.not_mem_nil, or_false] at hd; subst hd
    obtain ⟨tail, ht⟩ := padFrame_head c c.pre [] (UInt8.ofNat p.length) p
    rw [ht, byteAt_drop_prefix] at hty
    have := (Proofs.Seg.sfShort_iff c p.length).mp hs
    rw [toNat_ofNat_lt _ (by omega)] at hty; omega
  · rw [heq] at hd; simp only [List.mem_cons, List.not_mem_nil, or_false] at hd; subst hd
    obtain ⟨tail, ht⟩ := padFrame_head c c.pre [UInt8.ofNat p.length] 0x00 p
    rw [ht, byteAt_drop_prefix] at hty
    exact absurd hty (by decide)
  · rw [heq] at hd
    rcases List.mem_cons.mp hd with rfl | hd
    · have e : (Spec.padFrame c (c.pre ++ Spec.ffHeader p.length ++ p.take (Spec.ffRoom c p.length))).drop c.pre.length =
          Spec.ffHeader p.length ++ (p.take (Spec.ffRoom c p.length) ++
            List.replicate (Spec.padTarget c (c.pre ++ Spec.ffHeader p.length ++ p.take (Spec.ffRoom c p.length)).length -
              (c.pre ++ Spec.ffHeader p.length ++ p.take (Spec.ffRoom c p.length)).length) (Spec.padByte c)) := by
        unfold Spec.padFrame
        rw [List.append_assoc, List.append_assoc, List.drop_left]
      rw [e] at h
      by_cases hn : p.length ≤ 4095
      · rw [Rx.decodeBody_ff12 _ _ h1 hn] at h
        simp only [Option.some.injEq, Pdu.ff.injEq] at h
        exact h.1.symm
      · rw [Rx.decodeBody_ff32 _ _ (by omega) h2] at h
        simp only [Option.some.injEq, Pdu.ff.injEq] at h
        exact h.1.symm
    · obtain ⟨b, rest, hb1, hb2⟩ := cfFrames_pci c _ _ _ hd
      rw [hb1, byteAt_drop_prefix] at hty
      omega


/-! ### the two invariants of a layer together, and the operations other than `process()` -/

structure Layer2 (c : Cfg) (a : Addr) (mx : Nat) (s : State) (L : List Ev) (ps : List Bytes) : Prop where
  send2 : Send2Ok c a mx s L ps
  feeds : Rx.Feeds (State.init c a) (fed a (s.log ++ L).reverse) (relog s L)

/-- the clock, the exception flag and the split of the history between `s.log` and `L` do not matter -/
theorem Layer2.relabel {c : Cfg} {a : Addr} {mx : Nat} {s : State} {L : List Ev} {ps : List Bytes}
    (h : Layer2 c a mx s L ps) (t : Nat) (lg L' : List Ev) (e : Option PyExc) (hlog : lg ++ L' = s.log ++ L) :
    Layer2 c a mx { s with now := t, log := lg, exc := e } L' ps := by
  obtain ⟨hS, hF⟩ := h
  constructor
  · refine ⟨hS.cfg, hS.addr, ?_, ?_, hS.status, hS.mail, hS.nobg, ?_⟩
    case refine_3 =>
      show ErrOk (lg ++ L')
      rw [hlog]; exact hS.errs
    · show ∀ m ∈ Net.txOf (lg ++ L').reverse, _
      rw [hlog]; exact hS.frames
    · show Progress c a mx _ ps (dataOut _ (lg ++ L').reverse)
      rw [hlog]
      exact hS.prog.same (txSame_refl' _ _ rfl rfl rfl rfl rfl rfl rfl rfl) rfl
  · show Rx.Feeds _ (fed a (lg ++ L').reverse) _
    rw [hlog]
    refine feeds_same hF ?_
    show Rx.rxView _ = Rx.rxView _
    simp only [Rx.rxView, Rx.rxTrace, relog, hlog]

/-- a step that leaves the log, the transmit side, the reception side and the two Flow Control fields alone -/
theorem Layer2.same {c : Cfg} {a : Addr} {mx : Nat} {s s' : State} {L : List Ev} {ps : List Bytes}
    (h : Layer2 c a mx s L ps) (hs : Proofs.TxSame s s') (hq : s'.txQueue = s.txQueue) (hl : s'.log = s.log)
    (hrx : Rx.RxSame s s') (hpf : s'.pendingFcStatus = s.pendingFcStatus) (hlf : s'.lastFc = s.lastFc) :
    Layer2 c a mx s' L ps := by
  obtain ⟨hS, hF⟩ := h
  constructor
  · exact hS.neutral hs hq (by rw [hl]) (by intro st h; rw [hpf] at h; exact hS.status st h)
      (by intro f h; rw [hlf] at h; exact hS.mail f h) (by rw [hl]; exact hS.errs)
  · rw [hl]
    exact feeds_same hF (rxSame_relog hrx L)

/-- `process()`, from the closed forms -/
theorem Layer2.process {c : Cfg} {a : Addr} {mx : Nat} {s : State} {L : List Ev} {ps : List Bytes} (doRx doTx : Bool)
    (hsafe : SafeOk s) (hg : ∀ m ∈ seen s L, InGood c a m) (h : noT (s.log ++ L) = true → Layer2 c a mx s L ps)
    (hn : noT ((s.process doRx doTx).1.log ++ L) = true) : Layer2 c a mx (s.process doRx doTx).1 L ps := by
  have hseen := seen_process L s doRx doTx
  have hS : SendInv2 c a mx s L ps := fun hn0 _ => (h hn0).send2
  have hR : RecvInv2 c a s L := fun hn0 _ => (h hn0).feeds
  exact ⟨hS.process s doRx doTx hsafe hn (by rw [hseen]; exact hg), hR.process s doRx doTx hn (by rw [hseen]; exact hg)⟩

theorem Layer2.sendOp {c : Cfg} {a : Addr} {mx : Nat} {s : State} {L : List Ev} {ps : List Bytes}
    (h : Layer2 c a mx s L ps) (args : SendArgs) (hsz : args.size = args.src.length) (h1 : 1 ≤ args.src.length)
    (h2 : args.src.length < 4294967296) (h3 : args.src.length ≤ mx) :
    Layer2 c a mx (s.send args).1 L (if queued (s.send args).2 then ps ++ [args.src] else ps) := by
  rcases C12.send_cases s args with ⟨hres, hst⟩ | ⟨hres, -, hst⟩
  · rw [hres, hst]; exact h
  · have hq : queued (s.send args).2 = true := by
      rw [hres]; cases s.cfg.blocking <;> rfl
    rw [hq, hst]
    obtain ⟨hS, hF⟩ := h
    constructor
    · refine ⟨hS.cfg, hS.addr, hS.frames, hS.prog.send _ _ (reqOk_mkReq mx s args hsz h1 h2 h3), hS.status, hS.mail,
        ⟨hS.nobg.1, ?_⟩, hS.errs⟩
      intro r hr
      simp only [List.mem_append, List.mem_singleton] at hr
      rcases hr with hr | rfl
      · exact hS.nobg.2 r hr
      · exact cov_mkReq s args hsz
    · exact feeds_same hF (rxSame_relog (Rx.rxView_congr _ _ rfl rfl rfl rfl rfl rfl rfl rfl rfl) L)

theorem Layer2.recvOp {c : Cfg} {a : Addr} {mx : Nat} {s : State} {L : List Ev} {ps : List Bytes}
    (h : Layer2 c a mx s L ps) : Layer2 c a mx s.recv.1 L ps := by
  cases hq : s.rxQueue with
  | nil =>
    have hr : s.recv = (s, none) := by simp [State.recv, hq]
    rw [hr]; exact h
  | cons p rest =>
    have hr : s.recv = ({ s with rxQueue := rest }, some p) := by simp [State.recv, hq]
    rw [hr]
    exact h.same (txSame_refl' _ _ rfl rfl rfl rfl rfl rfl rfl rfl) rfl rfl
      (Rx.rxView_congr _ _ rfl rfl rfl rfl rfl rfl rfl rfl rfl) rfl rfl

theorem Layer2.push {c : Cfg} {a : Addr} {mx : Nat} {s : State} {L : List Ev} {ps : List Bytes}
    (h : Layer2 c a mx s L ps) (inb : List (Nat × CanMsg)) : Layer2 c a mx { s with inbox := inb } L ps :=
  h.same (txSame_refl' _ _ rfl rfl rfl rfl rfl rfl rfl rfl) rfl rfl
    (Rx.rxView_congr _ _ rfl rfl rfl rfl rfl rfl rfl rfl rfl) rfl rfl

theorem layer2_init (c : Cfg) (a : Addr) (mx : Nat) : Layer2 c a mx (State.init c a) [] [] := by
  constructor
  · refine ⟨rfl, rfl, by intro m hm; simp [Net.txOf, State.init] at hm,
      Progress.idle rfl rfl rfl (by simp [dataOut, Net.txOf, State.init]), ?_, ?_, ?_, ?_⟩
    · intro st h; cases h
    · intro f h; cases h
    · constructor
      · intro r h; cases h
      · intro r h; cases h
    · intro t x h; simp [State.init] at h
  · have : relog (State.init c a) [] = State.init c a := relog_nil _
    rw [this]
    exact Rx.Feeds.done (Rx.RxSame.refl _)

end Isotp.NetP
